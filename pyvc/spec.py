"""Spec functions shared by contracts (dual use: ints or symbolic integers)."""
from .cal import dim, isleap, ordinal, weekday_of  # noqa: F401
from .core import And, Implies, Ite, Not, Or, truth  # noqa: F401


def same_fields(dt, y, m, d, H=0, M=0, S=0, us=0):
    """datetime-like `dt` has exactly these wall-clock fields"""
    return And(dt.year == y, dt.month == m, dt.day == d, dt.hour == H, dt.minute == M,
               dt.second == S, dt.microsecond == us)


def is_datetime(x):
    import datetime

    from .cal import SDateTime

    return isinstance(x, (SDateTime, datetime.datetime))


def clamp(d, hi):
    return Ite(d <= hi, d, hi)
