"""Replay entry point: run one (contract, case) on the REAL, uninstrumented library with concrete
inputs and re-evaluate the contract's clauses.  Reads a JSON spec on stdin, prints a JSON result."""
import json
import sys


def main():
    spec = json.loads(sys.stdin.read())
    import dateparser  # the real library (PYTHONPATH=/repo), no instrumentation in this process

    from pyvc.driver import load_contract, run_case_concrete

    c = load_contract(spec["module"], spec["contract"])
    res = run_case_concrete(c, spec["case"], spec["values"])
    res["dateparser_file"] = dateparser.__file__
    print(json.dumps(res, default=repr))


if __name__ == "__main__":
    main()
