"""Replay entry point: run one (contract, case) on the REAL, uninstrumented library with concrete
inputs and re-evaluate the contract's clauses.  Reads a JSON spec on stdin, prints a JSON result.

mode "replay"  : values = a solver model
mode "bounded" : K deterministic, boundary-biased samples of the contract's inputs (the bounded
                 stand-in used when the changed code is outside the symbolic engine's reach)."""
import hashlib
import json
import sys


def sampler(i, seed):
    def f(name, lo, hi):
        h = int(hashlib.md5(("%d/%d/%s" % (seed, i, name)).encode()).hexdigest(), 16)
        if lo is None:
            lo = -(10 ** 6)
        if hi is None:
            hi = 10 ** 6
        if hi <= lo:
            return lo
        mode = h % 10
        h //= 10
        if mode < 4:
            cands = [lo, hi, lo + 1, hi - 1, (lo + hi) // 2]
            return max(lo, min(hi, cands[h % len(cands)]))
        return lo + h % (hi - lo + 1)

    return f


def bounded(c, case, K, seed):
    import pyvc.driver as drv
    from pyvc.driver import run_case_concrete

    fails, accepted, rejected, errors = [], 0, 0, []
    orig = drv.ConcInputs
    for i in range(K):
        rec = {}
        smp = sampler(i, seed)

        def dflt(name, lo, hi, rec=rec, smp=smp):
            v = smp(name, lo, hi)
            rec[name] = v
            return v

        class _CI(orig):
            def __init__(self, values):
                orig.__init__(self, values, default=dflt)

        drv.ConcInputs = _CI
        try:
            res = run_case_concrete(c, case, {})
        except Exception as e:  # a contract that cannot be evaluated concretely is a checker error
            if len(errors) < 3:
                errors.append("%s: %s (inputs %r)" % (type(e).__name__, e, dict(rec)))
            continue
        finally:
            drv.ConcInputs = orig
        if "rejected" in res:
            rejected += 1
            continue
        accepted += 1
        bad = [k for k, v in res["clauses"].items() if v is False]
        if bad and len(fails) < 5:
            fails.append({"values": dict(rec), "failed_clauses": bad, "outcome": res["outcome"],
                          "call": res["call"]})
    return {"bounded": True, "case": case, "samples": K, "accepted": accepted, "rejected": rejected,
            "failures": fails, "errors": errors}


def main():
    spec = json.loads(sys.stdin.read())
    import dateparser  # the real library (PYTHONPATH=/repo), no instrumentation in this process

    from pyvc.driver import load_contract, run_case_concrete

    c = load_contract(spec["module"], spec["contract"])
    if spec.get("mode") == "bounded-batch":
        out = []
        for case in spec["cases"]:
            out.append(bounded(c, case, spec["samples"], spec.get("seed", 0)))
        print(json.dumps({"batch": out, "dateparser_file": dateparser.__file__}, default=repr))
        return
    if spec.get("mode") == "bounded":
        res = bounded(c, spec["case"], spec["samples"], spec.get("seed", 0))
        res["dateparser_file"] = dateparser.__file__
        print(json.dumps(res, default=repr))
        return
    res = run_case_concrete(c, spec["case"], spec["values"])
    res["dateparser_file"] = dateparser.__file__
    print(json.dumps(res, default=repr))


if __name__ == "__main__":
    main()
