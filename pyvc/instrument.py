"""Mechanical instrumentation of the real dateparser source + the call dispatcher.

On every run the files under /repo/dateparser (and the stdlib's pure-Python _strptime, of which
dateparser makes a private patched copy) are read, parsed, rewritten by `Rewriter` and compiled; the
result is what the worker processes import as `dateparser`.  The rewriting is limited to three node
kinds and is the identity on concrete values (checked by the concrete-mode differential test):

  f(a, *b, k=c, **d)      ->  __vc_call__(f, a, *b, k=c, **d)       (not: super(), eval, exec, locals,
                                                                        globals, vars, dir)
  a % b                   ->  __vc_mod__(a, b)
  a in b / a not in b     ->  __vc_in__(a, b) / not __vc_in__(a, b)   (single-operator comparisons)

Everything else (control flow, scoping, classes, closures, generators, exceptions, attribute access,
arithmetic, comparisons, subscripts) is executed by CPython itself; symbolic values take part through
their dunder methods.  Nothing is dropped.  `__vc_call__` lets no symbolic value reach native or
third-party code except through a model listed in MODELS (the assumed contracts), otherwise the run
stops with Unsupported (exit 2).
"""
import ast
import builtins
import importlib.abc
import importlib.machinery
import importlib.util
import sys
import types

from . import cal, rx, sstr, zone
from .core import SBool, SInt, Sym, Unsupported, is_sym

INSTRUMENTED_PREFIXES = ("dateparser",)
EXCLUDED_PREFIXES = ("dateparser.data", "dateparser_data")
_NO_REWRITE_CALLS = {"super", "eval", "exec", "locals", "globals", "vars", "dir"}

rewritten_files = {}  # path -> dict(calls=, mods=, ins=)


class Rewriter(ast.NodeTransformer):
    def __init__(self):
        self.counts = dict(calls=0, mods=0, ins=0)

    def visit_Call(self, node):
        self.generic_visit(node)
        if isinstance(node.func, ast.Name) and node.func.id in _NO_REWRITE_CALLS:
            return node
        self.counts["calls"] += 1
        new = ast.Call(
            func=ast.Name(id="__vc_call__", ctx=ast.Load()),
            args=[node.func] + node.args,
            keywords=node.keywords,
        )
        return ast.copy_location(new, node)

    def visit_BinOp(self, node):
        self.generic_visit(node)
        if isinstance(node.op, ast.Mod):
            self.counts["mods"] += 1
            new = ast.Call(
                func=ast.Name(id="__vc_mod__", ctx=ast.Load()),
                args=[node.left, node.right],
                keywords=[],
            )
            return ast.copy_location(new, node)
        return node

    def visit_Compare(self, node):
        self.generic_visit(node)
        if any(isinstance(o, (ast.In, ast.NotIn)) for o in node.ops):
            if len(node.ops) != 1:
                raise Unsupported("chained comparison with `in` at line %d" % node.lineno)
            self.counts["ins"] += 1
            call = ast.Call(
                func=ast.Name(id="__vc_in__", ctx=ast.Load()),
                args=[node.left, node.comparators[0]],
                keywords=[],
            )
            ast.copy_location(call, node)
            if isinstance(node.ops[0], ast.NotIn):
                new = ast.UnaryOp(op=ast.Not(), operand=call)
                return ast.copy_location(new, node)
            return call
        return node


def instrument_source(source, path):
    tree = ast.parse(source, filename=path)
    rw = Rewriter()
    tree = rw.visit(tree)
    ast.fix_missing_locations(tree)
    rewritten_files[path] = rw.counts
    return compile(tree, path, "exec", dont_inherit=True)


class _Loader(importlib.machinery.SourceFileLoader):
    def get_code(self, fullname):
        path = self.get_filename(fullname)
        data = self.get_data(path)
        return instrument_source(importlib.util.decode_source(data), path)


class _Finder(importlib.abc.MetaPathFinder):
    def find_spec(self, fullname, path, target=None):
        if not (fullname in INSTRUMENTED_PREFIXES or fullname.startswith(
                tuple(p + "." for p in INSTRUMENTED_PREFIXES))):
            return None
        if fullname.startswith(EXCLUDED_PREFIXES) and fullname != "dateparser.data":
            return None
        spec = importlib.machinery.PathFinder.find_spec(fullname, path)
        if spec is None or not isinstance(spec.loader, importlib.machinery.SourceFileLoader):
            return spec
        spec.loader = _Loader(spec.loader.name, spec.loader.path)
        return spec


_installed = False


def install(repo="/repo"):
    """Install the hooks and import the instrumented library (call once per process, first)."""
    global _installed
    if _installed:
        return
    for m in list(sys.modules):
        if m == "dateparser" or m.startswith("dateparser."):
            raise RuntimeError("dateparser imported before instrumentation: %s" % m)
    builtins.__vc_call__ = vc_call
    builtins.__vc_mod__ = vc_mod
    builtins.__vc_in__ = vc_in
    if repo not in sys.path:
        sys.path.insert(0, repo)
    sys.meta_path.insert(0, _Finder())
    _installed = True
    import dateparser  # noqa
    import dateparser.search  # noqa
    import dateparser.calendars.jalali  # noqa
    import dateparser.calendars.hijri  # noqa

    assert dateparser.__file__.startswith(repo), dateparser.__file__
    _instrument_strptime_copy()
    _build_tables()


def _instrument_strptime_copy():
    """dateparser.utils.strptime keeps a private copy of the stdlib's _strptime (pure Python):
    re-execute that copy from the stdlib source, instrumented, keeping dateparser's patches."""
    import dateparser.utils.strptime as dus

    mod = sys.modules["strptime_patched"]
    keep = {k: mod.__dict__[k] for k in ("_getlang", "calendar")}
    path = mod.__spec__.origin
    with open(path, "rb") as f:
        code = instrument_source(importlib.util.decode_source(f.read()), path)
    exec(code, mod.__dict__)
    mod.__dict__.update(keep)
    mod._TimeRE_cache = mod.TimeRE()
    mod._regex_cache.clear()
    dus.__dict__["__strptime"] = mod._strptime_time


# ---------------------------------------------------------------------------------------------
# dispatcher

_DIRECT_MODULE_PREFIXES = ("dateparser", "pyvc", "strptime_patched", "_strptime", "contracts",
                           "checks")
MODELS = {}  # id(callable) -> model  (used when a symbolic value is among the arguments)
MODEL_NAMES = {}  # id -> printable name (evidence: assumed contracts actually used)
ALWAYS = {}  # id(callable) or (owner, name) -> model, applied even to concrete arguments
used_models = set()
_NATIVE_OK_MODULES = ("builtins", "itertools", "operator", "functools", "collections", "_collections",
                      "_functools", "_operator", "copy", "time", "_thread", "_collections_abc",
                      "collections.abc", "abc", "types", "locale", "_locale")
_pattern_types = ()
import re as _re_mod

_BUILTIN_CALLABLE_TYPES = frozenset(
    [type(len), type(_re_mod.compile("x").match), type(str.join), type("".__add__),
     type(int.__add__), type(dict.fromkeys), types.BuiltinFunctionType, types.MethodDescriptorType])


def _shallow_sym(x):
    if isinstance(x, (Sym, zone.SZone, zone.SVariant, rx.SMatch, sstr.SStringIO, SRelDelta, SymSet)):
        return True
    if type(x) in (tuple, list):
        for y in x:
            if isinstance(y, Sym):
                return True
            if type(y) in (tuple, list):
                for w in y:
                    if isinstance(w, Sym):
                        return True
    elif type(x) is dict:
        for y in x.values():
            if isinstance(y, Sym):
                return True
    return False


def _any_sym(args, kwargs):
    for a in args:
        if _shallow_sym(a):
            return True
    for a in kwargs.values():
        if _shallow_sym(a):
            return True
    return False


def _is_direct(f):
    t = type(f)
    if t is types.FunctionType:
        return (f.__module__ or "").startswith(_DIRECT_MODULE_PREFIXES)
    if t is types.MethodType:
        return _is_direct(f.__func__)
    if isinstance(f, type):
        return (f.__module__ or "").startswith(_DIRECT_MODULE_PREFIXES)
    if t is types.LambdaType:
        return True
    if (getattr(t, "__module__", "") or "").startswith(_DIRECT_MODULE_PREFIXES) and callable(f):
        return True  # instance with __call__ of an instrumented class (e.g. parser.time_parser)
    return False


def vc_call(f, *args, **kwargs):
    if ALWAYS:
        m = ALWAYS.get(id(f))
        if m is None and type(f) in _BUILTIN_CALLABLE_TYPES:
            s = getattr(f, "__self__", None)
            if s is not None and not isinstance(s, types.ModuleType):
                try:
                    m = ALWAYS.get((s, f.__name__))
                except TypeError:
                    m = None
        elif m is None and type(f) is types.MethodType:
            try:
                m = ALWAYS.get((type(f.__self__), f.__name__))
            except TypeError:
                m = None
        if m is not None:
            used_models.add(getattr(m, "__name__", repr(m)))
            return m(*args, **kwargs)
    t = type(f)
    if t in _BUILTIN_CALLABLE_TYPES:
        selfobj = getattr(f, "__self__", None)
        if type(selfobj) is str and f.__name__ == "join" and len(args) == 1 and not kwargs \
                and not isinstance(args[0], (list, tuple, str)):
            args = (list(args[0]),)
        if (selfobj is None or isinstance(selfobj, types.ModuleType) or not _shallow_sym(selfobj)) \
                and not _any_sym(args, kwargs):
            return f(*args, **kwargs)
        return _call_builtin(f, selfobj, args, kwargs)
    if not _any_sym(args, kwargs) and not (t is types.MethodType and _shallow_sym(f.__self__)):
        return f(*args, **kwargs)
    # symbolic arguments from here on
    if _is_direct(f):
        return f(*args, **kwargs)
    m = MODELS.get(id(f))
    if m is not None:
        used_models.add(MODEL_NAMES.get(id(f), getattr(m, "__name__", "?")))
        return m(*args, **kwargs)
    if t is types.MethodType:
        # bound method of an object: symbolic receiver (our own classes) or tz objects
        s = f.__self__
        if isinstance(s, (Sym, zone.SZone, zone.SVariant, rx.SMatch, sstr.SStringIO, SRelDelta)):
            return f(*args, **kwargs)
        if isinstance(s, type) and _is_direct(s):
            return f(*args, **kwargs)
        name = f.__name__
        import datetime as _dt

        if isinstance(s, _dt.tzinfo):
            if name == "localize":
                used_models.add("tzinfo.localize")
                return zone.localize(s, *args, **kwargs)
            if name == "utcoffset":
                used_models.add("tzinfo.utcoffset")
                return zone.utcoffset_of(s, *args)
    if isinstance(f, type) and (f.__module__ or "") in _NATIVE_OK_MODULES:
        # container / iterator types only move their arguments around
        return f(*args, **kwargs)
    raise Unsupported("call of %s with symbolic arguments" % _fname(f))


def _fname(f):
    return "%s.%s" % (getattr(f, "__module__", "?"), getattr(f, "__qualname__", repr(f)))


def _call_builtin(f, selfobj, args, kwargs):
    m = MODELS.get(id(f))
    if m is not None:
        used_models.add(MODEL_NAMES.get(id(f), getattr(m, "__name__", "?")))
        return m(*args, **kwargs)
    name = f.__name__
    if selfobj is not None and not isinstance(selfobj, types.ModuleType):
        if isinstance(selfobj, type):
            key = (selfobj, name)
            m = MODELS.get(key)
            if m is not None:
                used_models.add("%s.%s" % (selfobj.__name__, name))
                return m(*args, **kwargs)
            if (selfobj.__module__ or "") in _NATIVE_OK_MODULES:
                return f(*args, **kwargs)  # e.g. itertools.chain.from_iterable: moves objects only
            raise Unsupported("%s.%s with symbolic arguments" % (selfobj.__name__, name))
        ts = type(selfobj)
        if ts is str:
            return getattr(sstr.SStr(tuple(selfobj)), name)(*args, **kwargs)
        if isinstance(selfobj, dict) and name in ("__contains__", "__getitem__", "get") and args \
                and isinstance(args[0], sstr.SStr):
            return _dict_lookup(selfobj, name, *args)
        if isinstance(selfobj, _pattern_types):
            used_models.add("regex.%s" % name)
            return _pattern_method(selfobj, name, args, kwargs)
        if isinstance(selfobj, (list, dict, tuple, set, frozenset)) or ts.__module__ in (
                "collections", "_collections", "builtins", "itertools"):
            return f(*args, **kwargs)
        if isinstance(selfobj, Sym):
            return f(*args, **kwargs)
        import datetime as _dt

        if isinstance(selfobj, _dt.datetime):
            # a concrete datetime meeting symbolic arguments: continue in the calendar theory
            lifted = cal.SDateTime(*cal.dt_fields(selfobj), selfobj.tzinfo, selfobj.fold)
            return getattr(lifted, name)(*args, **kwargs)
        if isinstance(selfobj, _dt.date):
            return getattr(cal.SDate(selfobj.year, selfobj.month, selfobj.day), name)(*args, **kwargs)
        if isinstance(selfobj, _dt.time):
            lifted = cal.STime(selfobj.hour, selfobj.minute, selfobj.second, selfobj.microsecond,
                               selfobj.tzinfo)
            return getattr(lifted, name)(*args, **kwargs)
        raise Unsupported("method %s.%s with symbolic arguments" % (ts.__name__, name))
    mod = getattr(f, "__module__", None) or ""
    if mod in _NATIVE_OK_MODULES:
        return f(*args, **kwargs)
    raise Unsupported("builtin %s.%s with symbolic arguments" % (mod, name))


def _pattern_method(pat, name, args, kwargs):
    if name in ("match", "search", "fullmatch"):
        subject = args[0] if args else kwargs.pop("string")
        pos = args[1] if len(args) > 1 else kwargs.get("pos", 0)
        if name == "fullmatch":
            return rx.fullmatch(pat, subject)
        return getattr(rx, name)(pat, subject, pos=pos)
    if name in ("findall", "finditer", "split"):
        r = getattr(rx, name)(pat, *args, **kwargs)
        return iter(r) if name == "finditer" else r
    if name in ("sub", "subn"):
        repl, subject = args[0], args[1]
        count = args[2] if len(args) > 2 else kwargs.get("count", 0)
        return getattr(rx, name)(pat, repl, subject, count)
    raise Unsupported("Pattern.%s on a skeleton string" % name)


def _dict_lookup(d, name, key, default=None):
    """dict access with a skeleton-string key: a key of the dict matches if it is a string of the
    same length and equal character by character (symbolic digits compare symbolically: forks)"""
    n = len(key)
    for k in d:
        if type(k) is str and len(k) == n:
            if key == k:
                if name == "__contains__":
                    return True
                return d[k]
    if name == "__contains__":
        return False
    if name == "get":
        return default
    raise KeyError(key)


class SymSet:
    """set(...) of strings some of which are skeleton strings (list-backed, symbolic equality)"""

    def __init__(self, items=()):
        self.items = []
        for x in items:
            self.add(x)

    def add(self, x):
        for y in self.items:
            if _str_eq(x, y):
                return
        self.items.append(x)

    def __contains__(self, x):
        for y in self.items:
            if _str_eq(x, y):
                return True
        return False

    def __iter__(self):
        return iter(list(self.items))

    def __len__(self):
        return len(self.items)

    def __bool__(self):
        return bool(self.items)

    def __sub__(self, other):
        o = other if isinstance(other, SymSet) else SymSet(other)
        return SymSet([x for x in self.items if x not in o])

    def __or__(self, other):
        return SymSet(self.items + list(other))

    def __and__(self, other):
        o = other if isinstance(other, SymSet) else SymSet(other)
        return SymSet([x for x in self.items if x in o])

    def isdisjoint(self, other):
        o = other if isinstance(other, SymSet) else SymSet(other)
        for x in self.items:
            if x in o:
                return False
        return True


def _str_eq(a, b):
    if isinstance(a, sstr.SStr) or isinstance(b, sstr.SStr):
        if not isinstance(a, (str, sstr.SStr)) or not isinstance(b, (str, sstr.SStr)):
            return False
        return bool(a == b)
    return a == b


def model_set(iterable=()):
    items = list(iterable)
    if any(isinstance(x, sstr.SStr) for x in items):
        return SymSet(items)
    if any(isinstance(x, Sym) for x in items):
        raise Unsupported("set() of symbolic non-string values")
    return set(items)


def model_unicodedata_normalize(form, s):
    import unicodedata

    if isinstance(s, sstr.SStr):
        out = []
        for it in s.items:
            if isinstance(it, str):
                out.extend(unicodedata.normalize(form, it))
            else:
                out.append(it)  # ASCII digits are fixed points of every normal form
        return sstr.mk_str(out)
    return unicodedata.normalize(form, s)


def model_unicodedata_category(c):
    import unicodedata

    if isinstance(c, sstr.SStr):
        if len(c.items) != 1:
            raise TypeError("category() argument must be a unicode character, not str")
        return "Nd"
    return unicodedata.category(c)


def vc_mod(a, b):
    if type(a) is str:
        if isinstance(b, Sym) or (type(b) is tuple and any(isinstance(x, Sym) for x in b)):
            return sstr.sym_percent(a, b)
    return a % b


def vc_in(a, b):
    if type(b) is str and isinstance(a, sstr.SStr):
        return sstr.contains(b, a)
    if isinstance(a, sstr.SStr) and isinstance(b, dict):
        return _dict_lookup(b, "__contains__", a)
    if isinstance(a, sstr.SStr) and isinstance(b, (set, frozenset)):
        return a in SymSet(b)
    if type(b) is str and isinstance(a, Sym):
        raise Unsupported("%s in str" % type(a).__name__)
    if isinstance(a, SInt) and isinstance(b, (set, frozenset, dict)):
        # membership of a symbolic integer in a concrete hashed collection: a disjunction over
        # the integer members (bools count as ints in Python; other member types never equal an int)
        ks = sorted(k for k in b if isinstance(k, int))
        if any(isinstance(k, Sym) for k in b):
            raise Unsupported("symbolic members in a set/dict")
        if not ks:
            return False
        from .core import Or as _Or

        return _Or(*[a == int(k) for k in ks])
    return a in b


# ---------------------------------------------------------------------------------------------
# models of external code used with symbolic arguments


def model_int(x=0, base=10):
    if isinstance(x, (SInt, SBool, sstr.SStr)):
        return sstr.sym_int(x, base)
    if isinstance(x, Sym):
        raise Unsupported("int(%s)" % type(x).__name__)
    return int(x, base) if isinstance(x, str) and base != 10 else int(x)


def model_float(x=0.0):
    # floats are not modelled: an integral numeral is carried as a mathematical integer
    if isinstance(x, sstr.SStr):
        its = x.strip().items
        if any(isinstance(i, str) and not i.isdecimal() for i in its):
            if "." in its or "e" in its or "E" in its:
                raise Unsupported("float() of a skeleton with a fraction/exponent")
            raise ValueError("could not convert string to float")
        return sstr.sym_int(x)
    if isinstance(x, SInt):
        return x
    if isinstance(x, Sym):
        raise Unsupported("float(%s)" % type(x).__name__)
    return float(x)


def _str_of_sint(x):
    """decimal rendering of a symbolic integer: forks on sign and digit count (<= 12 digits)"""
    from .core import mk_int

    neg = bool(x < 0)
    v = -x if neg else x
    n = 1
    while not (v < 10 ** n):
        n += 1
        if n > 12:
            raise Unsupported("str() of a symbolic integer with more than 12 digits")
    items = [mk_int((v.e / (10 ** (n - 1 - i))) % 10) for i in range(n)]
    return sstr.mk_str((["-"] if neg else []) + items)


class LazyDecimal(Sym):
    """str(n) for an integer n that int() read from a digit string s: `.zfill(len(s))` is s itself
    (exact: zfill restores exactly the leading zeros int() dropped); any other use materialises the
    decimal rendering (a case split on the number of digits)."""

    def __init__(self, n):
        self.n = n
        self._s = None

    def _str(self):
        if self._s is None:
            self._s = _str_of_sint(self.n)
        return self._s

    def zfill(self, width):
        if isinstance(width, int) and width == len(self.n.src):
            return sstr.mk_str(self.n.src)
        return self._str().zfill(width)

    def __getattr__(self, name):
        if name.startswith("__"):
            raise AttributeError(name)
        return getattr(self._str(), name)

    def __len__(self):
        return len(self._str())

    def __eq__(self, o):
        return self._str() == o

    def __ne__(self, o):
        return self._str() != o

    def __add__(self, o):
        return self._str() + o

    def __radd__(self, o):
        return o + self._str()

    def __iter__(self):
        return iter(self._str())

    def __getitem__(self, k):
        return self._str()[k]

    def __bool__(self):
        return True

    __hash__ = Sym.__hash__


def model_str(x=""):
    if isinstance(x, sstr.SStr):
        return x
    if isinstance(x, LazyDecimal):
        return x
    if isinstance(x, SInt):
        if x.src is not None:
            return LazyDecimal(x)
        return _str_of_sint(x)
    if isinstance(x, Sym):
        raise Unsupported("str(%s)" % type(x).__name__)
    return str(x)


def model_bool(x=False):
    return bool(x)


def model_isinstance(x, t):
    import datetime as _dt

    if isinstance(x, Sym):
        ts = t if isinstance(t, tuple) else (t,)
        kinds = {
            cal.SDateTime: (_dt.datetime, _dt.date),
            cal.SDate: (_dt.date,),
            cal.STime: (_dt.time,),
            cal.STimeDelta: (_dt.timedelta,),
            sstr.SStr: (str,),
            SInt: (int,),
            SBool: (bool, int),
        }.get(type(x), ())
        for tt in ts:
            if tt is object or tt in kinds:
                return True
            if isinstance(tt, type) and isinstance(x, tt):
                return True
        return False
    if isinstance(x, (zone.SZone, zone.SVariant)):
        ts = t if isinstance(t, tuple) else (t,)
        return any(tt is _dt.tzinfo or tt is object for tt in ts)
    return isinstance(x, t)


class SRelDelta:
    """dateutil.relativedelta(**relative amounts) with symbolic integral amounts, following
    dateutil's own algorithm (2.9): __init__ sums weeks into days and _fix() carries |months| > 11
    into years; __radd__ applies years, then months with a single wrap, clamps the day to the month's
    length, `replace()`s (ValueError outside 1..9999) and finally adds the timedelta part.
    ASSUME: cross-checked against the real dateutil on a grid (tools/selftest.py)."""

    def __init__(self, years=0, months=0, days=0, weeks=0, hours=0, minutes=0, seconds=0,
                 microseconds=0, leapdays=0, **absolute):
        if absolute or leapdays:
            raise Unsupported("relativedelta absolute fields / leapdays")
        for v in (years, months):
            if isinstance(v, float) and v != int(v):
                raise ValueError("Non-integer years and months are ambiguous and not currently "
                                 "supported.")
        for v in (years, months, days, weeks, hours, minutes, seconds, microseconds):
            if isinstance(v, Sym) and not isinstance(v, SInt):
                raise Unsupported("relativedelta amount of type %s" % type(v).__name__)
            if isinstance(v, float) and v != int(v):
                raise Unsupported("fractional relativedelta amount next to symbolic ones")
        if isinstance(months, SInt) or isinstance(years, SInt):
            # symbolic amounts: non-negative counts only (what the callers under contract produce)
            if not (months >= 0) or not (years >= 0):
                raise Unsupported("negative symbolic years/months in relativedelta()")
            self.years = years + months // 12
            self.months = months % 12
        else:
            years, months = int(years), int(months)
            s = 1 if months >= 0 else -1
            q, r = divmod(abs(months), 12)
            self.years = years + q * s
            self.months = r * s
        self.days = weeks * 7 + days
        self.tus = ((hours * 60 + minutes) * 60 + seconds) * 1000000 + microseconds
        self.us = self.days * cal.US_DAY + self.tus

    def __bool__(self):
        return True

    def __neg__(self):
        r = SRelDelta.__new__(SRelDelta)
        r.years, r.months, r.us = -self.years, -self.months, -self.us
        r.days, r.tus = -self.days, -self.tus
        return r

    def _apply(self, dt):
        import z3

        from .core import mk_int, toint_z3

        y, m, d, H, M, S, us = cal.dt_fields(dt)
        year = y + self.years
        month = m
        if not (isinstance(self.months, int) and self.months == 0):
            month = m + self.months
            if isinstance(month, int) and isinstance(year, int):
                if month > 12:
                    year += 1
                    month -= 12
                elif month < 1:
                    year -= 1
                    month += 12
            else:
                zm, zy = toint_z3(month), toint_z3(year)
                year = mk_int(z3.If(zm > 12, zy + 1, z3.If(zm < 1, zy - 1, zy)))
                month = mk_int(z3.If(zm > 12, zm - 12, z3.If(zm < 1, zm + 12, zm)))
        changed = not (isinstance(self.years, int) and self.years == 0
                       and isinstance(self.months, int) and self.months == 0)
        if changed:
            # day = min(calendar.monthrange(year, month)[1], dt.day); dt.replace(year, month, day)
            if not cal._rng(1, year, 9999):
                # calendar.monthrange accepts any year; replace() raises
                raise ValueError("year %s is out of range" % "<sym>")
            dm = cal.dim(year, month)
            if isinstance(d, int) and isinstance(dm, int):
                nd = min(d, dm)
            else:
                nd = mk_int(z3.If(toint_z3(d) <= toint_z3(dm), toint_z3(d), toint_z3(dm)))
            dt = cal._raw_datetime(year, month, nd, H, M, S, us, cal.dt_tz(dt))
        delta = self.us
        if isinstance(delta, int) and delta == 0:
            return dt
        lim = 999999999 * cal.US_DAY
        if not cal._rng(-lim, delta, lim):
            raise OverflowError("days=%s; must have magnitude <= 999999999" % "<sym>")
        if isinstance(self.tus, int) and self.tus == 0:
            return cal.shift_days(dt, self.days)  # whole days: pure ordinal arithmetic
        return cal.shift_datetime(dt, delta)

    def __radd__(self, dt):
        import datetime as _dt

        if isinstance(dt, (cal.SDateTime, _dt.datetime)):
            return self._apply(dt)
        return NotImplemented

    __add__ = __radd__

    def __rsub__(self, dt):
        import datetime as _dt

        if isinstance(dt, (cal.SDateTime, _dt.datetime)):
            return (-self)._apply(dt)
        return NotImplemented


def model_relativedelta(*a, **k):
    if a:
        raise Unsupported("relativedelta(dt1, dt2)")
    return SRelDelta(**k)


def model_strptime_classmethod(date_string, fmt):
    """datetime.strptime(s, f): CPython calls _strptime._strptime_datetime(datetime, s, f); the same
    code is executed here from the instrumented private copy (C-locale names == dateparser's)."""
    import datetime as _dt

    mod = sys.modules["strptime_patched"]
    return mod._strptime_datetime(_dt.datetime, date_string, fmt)


EPOCH_ORDINAL = 719163  # date(1970, 1, 1).toordinal()


def model_fromtimestamp(timestamp, tz=None):
    """datetime.fromtimestamp(seconds, tz): the instant `seconds` after the epoch, expressed in tz
    (an aware datetime).  Without tz the system zone would be used: not modelled."""
    if tz is None:
        raise Unsupported("datetime.fromtimestamp() without tz (system local zone)")
    if not isinstance(timestamp, (int, SInt)):
        raise Unsupported("fromtimestamp(%s)" % type(timestamp).__name__)
    inst = EPOCH_ORDINAL * cal.US_DAY + timestamp * 1000000
    utc = cal.SDateTime.from_wall(inst, __import__("datetime").timezone.utc)
    return zone.astimezone(utc, tz)


def _build_tables():
    global _pattern_types
    import calendar
    import datetime as _dt
    import io
    import re as _re

    import regex

    _pattern_types = (type(_re.compile("x")), type(regex.compile("x")))

    def reg(obj, model, name):
        MODELS[id(obj)] = model
        MODEL_NAMES[id(obj)] = name

    reg(int, model_int, "int()")
    reg(float, model_float, "float() [integral only]")
    reg(str, model_str, "str()")
    reg(bool, model_bool, "bool()")
    reg(isinstance, model_isinstance, "isinstance()")
    reg(set, model_set, "set() [skeleton strings]")
    import unicodedata as _ud

    reg(_ud.normalize, model_unicodedata_normalize, "unicodedata.normalize [ASCII digits fixed]")
    reg(_ud.category, model_unicodedata_category, "unicodedata.category [digit -> Nd]")
    reg(_dt.datetime, cal.mk_datetime, "datetime()")
    reg(_dt.date, cal.mk_date, "date()")
    reg(_dt.time, cal.mk_time, "time()")
    reg(_dt.timedelta, cal.model_timedelta, "timedelta()")
    reg(calendar.weekday, cal.model_calendar_weekday, "calendar.weekday")
    reg(calendar.monthrange, cal.model_calendar_monthrange, "calendar.monthrange")
    reg(calendar.isleap, cal.model_calendar_isleap, "calendar.isleap")
    reg(io.StringIO, sstr.SStringIO, "io.StringIO")
    try:
        from dateutil.relativedelta import relativedelta

        reg(relativedelta, model_relativedelta, "dateutil.relativedelta")
    except ImportError:
        pass
    for mod in (_re, regex):
        for name in ("match", "search", "fullmatch", "sub", "subn", "split", "findall"):
            reg(getattr(mod, name), (lambda n: lambda pattern, *a, **k: _re_func(n, pattern, a, k))(
                name), "%s.%s" % (mod.__name__, name))
    MODELS[(_dt.datetime, "strptime")] = model_strptime_classmethod
    MODELS[(_dt.datetime, "fromtimestamp")] = model_fromtimestamp
    # the patched _strptime copy's calendar module is also a private copy: same functions
    pc = sys.modules.get("calendar_patched")
    if pc is not None:
        for name, model in (("weekday", cal.model_calendar_weekday),
                            ("monthrange", cal.model_calendar_monthrange),
                            ("isleap", cal.model_calendar_isleap)):
            if hasattr(pc, name):
                reg(getattr(pc, name), model, "calendar.%s" % name)
    ALWAYS[(_dt.datetime, "now")] = lambda tz=None: cal.clock_now(tz)
    ALWAYS[(_dt.datetime, "today")] = lambda: cal.clock_now(None)
    ALWAYS[(_dt.datetime, "utcnow")] = lambda: cal.clock_now(None)
    from . import extcal

    extcal.register(reg, MODELS)
    import time as _time

    reg(_time.struct_time, lambda seq: tuple(seq)[:9] if len(tuple(seq)) >= 9 else tuple(seq),
        "time.struct_time")


def _re_func(name, pattern, a, k):
    if name in ("sub", "subn"):
        repl, subject = a[0], a[1]
        count = a[2] if len(a) > 2 else k.get("count", 0)
        flags = a[3] if len(a) > 3 else k.get("flags", 0)
        if isinstance(pattern, str) or flags:
            import regex

            pattern = regex.compile(pattern, flags) if isinstance(pattern, str) else pattern
        return getattr(rx, name)(pattern, repl, subject, count)
    subject = a[0]
    flags = a[1] if len(a) > 1 and name != "split" else k.get("flags", 0)
    if isinstance(pattern, str):
        import regex

        pattern = regex.compile(pattern, flags)
    if name == "split":
        maxsplit = a[1] if len(a) > 1 else k.get("maxsplit", 0)
        return rx.split(pattern, subject, maxsplit)
    return getattr(rx, name)(pattern, subject)
