"""Harness helpers shared by the contract files: input construction for the code under contract."""
import copy


def make_settings(**over):
    """A Settings instance in a state the public API can produce (fields = documented defaults
    overridden by `over`), built without going through the process-wide registry so that every path
    starts from the same state.  `_mod_settings` holds exactly the overridden keys, as apply_settings
    would record them."""
    from dateparser.conf import Settings
    from dateparser_data.settings import settings as defaults

    s = object.__new__(Settings)
    d = copy.deepcopy(defaults)
    mod = {}
    for k, v in over.items():
        if k.startswith("_"):
            continue
        d[k] = v
        mod[k] = v
    s.__dict__.update(d)
    s.__dict__["_default"] = False
    s.__dict__["_mod_settings"] = over.get("_mod_settings", mod)
    s.__dict__["registry_key"] = over.get("_registry_key", "verif")
    return s
