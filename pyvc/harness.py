"""Harness helpers shared by the contract files: input construction for the code under contract."""
import copy


def make_settings(**over):
    """A Settings instance in a state the public API can produce (fields = documented defaults
    overridden by `over`), built without going through the process-wide registry so that every path
    starts from the same state.  `_mod_settings` holds exactly the overridden keys, as apply_settings
    would record them."""
    from dateparser.conf import Settings
    from dateparser_data.settings import settings as defaults

    s = object.__new__(Settings)
    d = copy.deepcopy(defaults)
    mod = {}
    for k, v in over.items():
        if k.startswith("_"):
            continue
        d[k] = v
        mod[k] = v
    s.__dict__.update(d)
    s.__dict__["_default"] = False
    s.__dict__["_mod_settings"] = over.get("_mod_settings", mod)
    s.__dict__["registry_key"] = over.get("_registry_key", "verif")
    return s


def build(inp, template):
    """template: sequence of literal strings and (field, ndigits) pairs -> (string, {field: value}).
    A field's digits are inputs named <field>0.. (symbolic when proving, from the model at replay)."""
    from pyvc.instrument_free import sym_int_free

    s = ""
    fields = {}
    for part in template:
        if isinstance(part, str):
            s = s + part
        else:
            name, n = part
            ds = inp.digits("#" * n, prefix=name)
            fields[name] = sym_int_free(ds)
            s = s + ds
    return s, fields


def render(template):
    return "".join(p if isinstance(p, str) else p[0][0].upper() * p[1] for p in template)
