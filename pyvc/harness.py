"""Harness helpers shared by the contract files: input construction for the code under contract."""
import copy


def make_settings(**over):
    """A Settings instance in a state the public API can produce (fields = documented defaults
    overridden by `over`), built without going through the process-wide registry so that every path
    starts from the same state.  `_mod_settings` holds exactly the overridden keys, as apply_settings
    would record them."""
    from dateparser.conf import Settings
    from dateparser_data.settings import settings as defaults

    s = object.__new__(Settings)
    d = copy.deepcopy(defaults)
    mod = {}
    for k, v in over.items():
        if k.startswith("_"):
            continue
        d[k] = v
        mod[k] = v
    s.__dict__.update(d)
    s.__dict__["_default"] = False
    s.__dict__["_mod_settings"] = over.get("_mod_settings", mod)
    s.__dict__["registry_key"] = over.get("_registry_key", "verif")
    return s


def build(inp, template):
    """template: sequence of literal strings and (field, ndigits) pairs -> (string, {field: value}).
    A field's digits are inputs named <field>0.. (symbolic when proving, from the model at replay)."""
    from pyvc.instrument_free import sym_int_free

    s = ""
    fields = {}
    for part in template:
        if isinstance(part, str):
            s = s + part
        else:
            name, n = part
            ds = inp.digits("#" * n, prefix=name)
            fields[name] = sym_int_free(ds)
            s = s + ds
    return s, fields


def render(template):
    return "".join(p if isinstance(p, str) else p[0][0].upper() * p[1] for p in template)


# ---------------------------------------------------------------------------------------------------
# zone environment for the timezone contracts (C11/C12/C01-epoch): abstract zones behind the names


class ZoneEnv:
    """Names 'ZoneA'/'ZoneB' resolve to abstract zones of the requested kind:
      'pytz'   -> pytz.timezone(name) returns an abstract pytz zone (has .localize)
      'static' -> pytz does not know the name (UnknownTimeZoneError); the library's own table has
                  one entry for it, with an arbitrary (symbolic) offset strictly inside +-24h
    and tzlocal.get_localzone() returns an abstract zoneinfo-style zone.  Proving mode only."""

    def __init__(self, inp, kinds):
        import datetime

        import pytz
        import regex
        import tzlocal

        import dateparser.utils as U
        from dateparser.timezone_parser import StaticTzInfo
        from pyvc import cal, instrument, zone

        self.zones = {}
        table = []
        for name, kind in kinds.items():
            if kind == "pytz":
                self.zones[name] = zone.SZone(name, "pytz")
            elif kind == "static":
                off = inp.int("off_" + name, -86399, 86399)
                td = cal.mk_timedelta(off * 1000000)
                self.zones[name] = StaticTzInfo(name, td)
                table.append((name, {"regex": regex.compile(r"(\W|\d|_)%s($|\W)" % name, regex.I),
                                     "offset": td}))
        self.local = zone.SZone("LocalZone", "plain")
        U._tz_offsets = table

        def tz_lookup(name):
            z = self.zones.get(name)
            if isinstance(z, zone.SZone):
                return z
            if name == "UTC":
                return pytz.utc
            raise pytz.UnknownTimeZoneError(name)

        instrument.ALWAYS[id(pytz.timezone)] = tz_lookup
        instrument.ALWAYS[id(tzlocal.get_localzone)] = lambda: self.local

    def zone(self, name):
        if name == "local":
            return self.local
        return self.zones[name]


def real_zone_env(values, kinds):
    """replay mode: pick real zones for the abstract ones (a counter-model of an abstract-zone
    obligation replays only if some real zone behaves like the model; the catalogue is fixed)"""
    raise NotImplementedError
