"""Property runner: `./check <Cxx> --tier quick|thorough` ends here.

exit 0  every obligation discharged, every stand-in clean (known findings printed, not counted)
exit 1  VIOLATION line(s): a counter-model replayed on the real code, a stand-in's failing input,
        or a baseline obligation that no longer discharges (no-failing-input-found)
exit 2  undecided: solver unknown/timeout, unsupported construct, obligation set differs from baseline
exit 3  the checker itself crashed / vacuity guard
"""
import argparse
import importlib
import json
import multiprocessing as mp
import os
import subprocess
import sys
import time
import traceback

VERIF = os.path.dirname(os.path.dirname(os.path.abspath(__file__)))
REPO = os.environ.get("VERIF_REPO", "/repo")
sys.path.insert(0, VERIF)

from pyvc import driver  # noqa: E402


def case_id(case):
    if not case:
        return "-"
    return ",".join("%s=%s" % (k, case[k]) for k in sorted(case))


def ob_id(cname, case, clause):
    return "%s[%s]::%s" % (cname, case_id(case), clause)


# -- known findings --------------------------------------------------------------------------------


def load_known():
    path = os.path.join(VERIF, "known_findings.txt")
    findings = []
    if not os.path.exists(path):
        return findings
    for line in open(path, encoding="utf-8"):
        line = line.strip()
        if not line.startswith("finding:"):
            continue
        rest = line[len("finding:"):].strip()
        d = {}
        # property=<id> obligation=<id> what=<free text to end of line>
        i = rest.index("property=") + 9
        d["property"] = rest[i:rest.index(" ", i)]
        i = rest.index("obligation=") + 11
        j = rest.index(" what=", i) if " what=" in rest[i:] else len(rest)
        d["obligation"] = rest[i:j]  # may contain spaces (vocabulary phrases)
        d["what"] = rest[j + 6:] if j < len(rest) else ""
        findings.append(d)
    return findings


def known_match(findings, pid, obligation):
    """a finding names an obligation id; `*` in it is a wildcard (nothing else is special)"""
    import re

    for f in findings:
        if f["property"] != pid:
            continue
        pat = ".*".join(re.escape(part) for part in f["obligation"].split("*"))
        if re.fullmatch(pat, obligation):
            return f
    return None


# -- workers ---------------------------------------------------------------------------------------


def _task(t):
    modname, cname, case, timeout_ms, seed = t
    try:
        c = driver.load_contract(modname, cname)
        r = driver.run_case_symbolic(c, case, timeout_ms=timeout_ms, seed=seed)
    except BaseException as e:  # never lose a task silently
        r = {"case": case, "clauses": {}, "failures": [], "undecided": [], "canary_ok": None,
             "stats": {}, "samples": [], "wall_s": 0,
             "error": "TASK %s: %s | %s" % (type(e).__name__, e,
                                          traceback.format_exc().strip().splitlines()[-3:])}
    r["contract"] = cname
    r["module"] = modname
    return r


def collect_contracts(pid, tier):
    import contracts

    out = []
    for modname in contracts.MODULES:
        mod = importlib.import_module(modname)
        for c in getattr(mod, "CONTRACTS", []):
            if pid in c.props:
                if getattr(c, "tier", "quick") == "thorough" and tier != "thorough":
                    continue
                out.append((modname, c))
    return out


def collect_standins(pid):
    import contracts

    return [s for s in contracts.STANDINS if pid in s["props"]]


def run_standin(s, tier, seed):
    env = dict(os.environ)
    env["PYTHONPATH"] = REPO + os.pathsep + VERIF
    env["PYTHONHASHSEED"] = "0"
    env["VERIF_TIER"] = tier
    env["VERIF_SEED"] = str(seed)
    t0 = time.time()
    try:
        r = subprocess.run([sys.executable, "-m", s["module"], "--tier", tier, "--seed", str(seed)]
                           + s.get("args", []),
                           capture_output=True, text=True, env=env, cwd=VERIF,
                           timeout=s.get("timeout", {}).get(tier, 3600))
    except subprocess.TimeoutExpired:
        return {"name": s["name"], "error": "stand-in timed out", "wall_s": time.time() - t0}
    if r.returncode != 0:
        return {"name": s["name"], "error": "stand-in crashed: " + (r.stderr or r.stdout)[-1500:],
                "wall_s": time.time() - t0}
    try:
        res = json.loads(r.stdout.strip().splitlines()[-1])
    except Exception:
        return {"name": s["name"], "error": "stand-in output unreadable: " + r.stdout[-500:],
                "wall_s": time.time() - t0}
    res["name"] = s["name"]
    res["wall_s"] = round(time.time() - t0, 2)
    return res


def write_replay(pid, obligation, payload):
    d = os.environ.get("VERIF_REPLAY_DIR") or os.path.join(VERIF, "replays")
    os.makedirs(d, exist_ok=True)
    safe = "".join(ch if ch.isalnum() or ch in "-_." else "_" for ch in obligation)[:150]
    path = os.path.join(d, "%s-%s.json" % (pid, safe))
    with open(path, "w", encoding="utf-8") as f:
        json.dump(payload, f, indent=1, default=repr, ensure_ascii=False)
    return path


def main(argv=None):
    ap = argparse.ArgumentParser()
    ap.add_argument("pid")
    ap.add_argument("--tier", default=os.environ.get("VERIF_TIER", "quick"))
    ap.add_argument("--seed", type=int, default=int(os.environ.get("VERIF_SEED", "0") or 0))
    ap.add_argument("--update-baseline", action="store_true")
    ap.add_argument("--only", default=None, help="substring filter on contract names (debugging)")
    ap.add_argument("--jobs", type=int, default=int(os.environ.get("VERIF_JOBS", "16")))
    ap.add_argument("--no-standins", action="store_true")
    ap.add_argument("--verbose", "-v", action="store_true")
    a = ap.parse_args(argv)
    pid, tier = a.pid, a.tier
    _TIER[0] = tier
    if os.environ.get("VERIF_UPDATE_BASELINE"):
        a.update_baseline = True
    t_start = time.time()
    timeout_ms = 60000 if tier == "quick" else 180000

    # instrument first, then fork
    from pyvc import instrument

    instrument.install(REPO)
    cs = collect_contracts(pid, tier)
    if a.only:
        cs = [(m, c) for (m, c) in cs if a.only in c.name and not a.only.startswith("standin:")]
    tasks = []
    for modname, c in cs:
        import inspect

        allc = c.cases(tier == "thorough") if inspect.signature(c.cases).parameters else c.cases()
        for case in allc:
            tasks.append((modname, c.__name__, case, timeout_ms, a.seed))
    results = []
    if tasks:
        ctx = mp.get_context("fork")
        with ctx.Pool(min(a.jobs, max(1, len(tasks))), maxtasksperchild=1) as pool:
            for r in pool.imap_unordered(_task, tasks, chunksize=1):
                results.append(r)
                if a.verbose:
                    print("  done %s[%s] %.1fs paths=%s err=%s" % (
                        r["contract"], case_id(r["case"]), r["wall_s"],
                        r.get("stats", {}).get("paths"), r.get("error")), flush=True)
    byname = {c.__name__: (m, c) for (m, c) in cs}

    known = load_known()
    obligations = {}  # id -> status
    violations = []
    known_seen = []
    undecided = []
    crashes = []
    models_replayed = 0
    fallback_cases = []
    bounded_runs = []
    total_paths = total_queries = 0
    solver_time = 0.0
    global BACKENDS
    BACKENDS = {"interval": 0, "z3_fresh": 0, "cvc5_asked": 0, "cvc5_unsat": 0}
    for r in results:
        cname = r["contract"]
        c = byname[cname][1]
        st = r.get("stats") or {}
        total_paths += st.get("paths", 0)
        total_queries += st.get("queries", 0)
        solver_time += st.get("solver_time", 0.0)
        for k in BACKENDS:
            BACKENDS[k] += st.get(k, 0)
        if r.get("error"):
            (crashes if r["error"].startswith(("HARNESS", "TASK")) else undecided).append(
                "%s[%s]: %s" % (cname, case_id(r["case"]), r["error"]))
            obligations[ob_id(c.name, r["case"], "*")] = "error"
            if not r["error"].startswith(("HARNESS", "TASK")):
                fallback_cases.append(r)
            continue
        if r.get("canary_ok") is False or not r["clauses"]:
            crashes.append("%s[%s]: vacuous (no feasible path / contradictory requires)" % (
                cname, case_id(r["case"])))
            obligations[ob_id(c.name, r["case"], "*")] = "vacuous"
            continue
        for clause, cst in r["clauses"].items():
            oid = ob_id(c.name, r["case"], clause)
            if cst["sat"]:
                obligations[oid] = "failed"
            elif cst["unknown"]:
                obligations[oid] = "unknown"
                undecided.append("%s: solver unknown on %d path(s)" % (oid, cst["unknown"]))
            else:
                obligations[oid] = "discharged"
        # failures: replay each counter-model on the real code
        confirmed = set()
        unconfirmed = {}
        for f in r["failures"]:
            oid = ob_id(c.name, r["case"], f["clause"])
            if oid in confirmed:
                continue
            rep = driver.replay_subprocess(r["module"], cname, r["case"], f["model"])
            models_replayed += 1
            f["replay"] = rep
            if bool(rep.get("clauses")) and rep["clauses"].get(f["clause"]) is False:
                confirmed.add(oid)
                if known_match(known, pid, oid):
                    known_seen.append((oid, rep.get("call"), rep.get("outcome")))
                else:
                    path = write_replay(pid, oid, {
                        "property": pid, "obligation": oid, "function": c.func,
                        "counter_model": f["model"], "symbolic_outcome": f["outcome"],
                        "replay_on_real_code": rep,
                        "replay_spec": {"module": r["module"], "contract": cname,
                                        "case": r["case"], "values": f["model"]},
                        "how_to_rerun": "cd /verif && echo '%s' | PYTHONPATH=/repo:/verif "
                                        ".venv/bin/python -m pyvc.replay" % json.dumps({
                                            "module": r["module"], "contract": cname,
                                            "case": r["case"], "values": f["model"]}),
                    })
                    violations.append((oid, path, False))
            else:
                unconfirmed.setdefault(oid, []).append(f)
        # a counter-model over abstract functions (zone offsets, calendar converters) need not name a
        # real zone / date: a contract may propose real-world witnesses derived from it, each replayed
        # on the real code like a counter-model
        wit = getattr(c, "witnesses", None)
        for oid, fl in list(unconfirmed.items()) if wit else []:
            if oid in confirmed or known_match(known, pid, oid):
                continue
            try:
                cands = list(wit(r["case"], fl[0]["model"]))[:getattr(c, "witness_cap", 48)]
            except Exception as e:
                crashes.append("witnesses() of %s: %r" % (c.name, e))
                cands = []
            for vals in cands:
                rep = driver.replay_subprocess(r["module"], cname, r["case"], vals)
                models_replayed += 1
                if bool(rep.get("clauses")) and rep["clauses"].get(fl[0]["clause"]) is False:
                    confirmed.add(oid)
                    path = write_replay(pid, oid, {
                        "property": pid, "obligation": oid, "function": c.func,
                        "counter_model": fl[0]["model"], "symbolic_outcome": fl[0]["outcome"],
                        "found_by": "witness search seeded by the verifier's counter-model (the "
                                    "model itself is over abstract zone/calendar functions)",
                        "failing_input": vals, "replay_on_real_code": rep,
                        "replay_spec": {"module": r["module"], "contract": cname,
                                        "case": r["case"], "values": vals},
                        "how_to_rerun": "cd /verif && echo '%s' | PYTHONPATH=/repo:/verif "
                                        ".venv/bin/python -m pyvc.replay" % json.dumps({
                                            "module": r["module"], "contract": cname,
                                            "case": r["case"], "values": vals}),
                    })
                    violations.append((oid, path, False))
                    break
        for oid, fl in unconfirmed.items():
            if oid in confirmed:
                continue
            # the solver refuted the obligation but no counter-model violates the clause natively
            payload = {"property": pid, "obligation": oid, "function": c.func,
                       "verifier_output": fl,
                       "note": "counter-model(s) found by the solver; replay on the real code did "
                               "not violate the clause"}
            base = load_baseline(pid)
            if known_match(known, pid, oid):
                known_seen.append((oid, "(symbolic counter-model only)", ""))
            elif base is not None and oid in base:
                path = write_replay(pid, oid, payload)
                violations.append((oid, path, True))
            else:
                undecided.append("%s: counter-model does not replay (engine divergence or the "
                                 "contract needs work): %s" % (oid, json.dumps(fl[0]["model"])[:300]))

    # concrete sampling of every contract case on the real, uninstrumented code (every run): guards
    # the engine (a discharged obligation with a concrete counterexample is an engine divergence),
    # the contracts' concrete evaluation (used by replay), and adds a bounded check.  Never "proved".
    conc_stats = {"cases": 0, "samples": 0, "accepted": 0, "failures": 0}
    if results and not os.environ.get("VERIF_NO_SAMPLING"):
        K = 25 if tier == "quick" else 400
        bycontract = {}
        for r in results:
            bycontract.setdefault((r["module"], r["contract"]), []).append(r["case"])
        jobs = []
        for (m, cn), cases_ in bycontract.items():
            step = max(1, (len(cases_) + 15) // 16)
            k_c = min(K, getattr(byname[cn][1], "concrete_samples", K))
            for i in range(0, len(cases_), step):
                jobs.append((m, cn, cases_[i:i + step], k_c, a.seed))
        ctx = mp.get_context("fork")
        with ctx.Pool(min(a.jobs, len(jobs))) as pool:
            outs = pool.starmap(driver.batch_subprocess, jobs)
        for (m, cn, cases_, _, _), b in zip(jobs, outs):
            c = byname[cn][1]
            if b.get("error"):
                crashes.append("concrete sampling of %s: %s" % (c.name, b["error"][-600:]))
                continue
            for cr in b["batch"]:
                conc_stats["cases"] += 1
                conc_stats["samples"] += cr["samples"]
                conc_stats["accepted"] += cr["accepted"]
                for e in cr.get("errors", [])[:1]:
                    crashes.append("concrete evaluation of %s[%s]: %s" % (c.name, case_id(cr["case"]), e))
                for fl in cr["failures"][:1]:
                    conc_stats["failures"] += 1
                    for clause in fl["failed_clauses"][:2]:
                        oid = ob_id(c.name, cr["case"], clause)
                        if known_match(known, pid, oid):
                            known_seen.append((oid, fl.get("call"), fl.get("outcome")))
                            continue
                        if any(v[0] == oid for v in violations):
                            continue
                        path = write_replay(pid, oid, {
                            "property": pid, "obligation": oid, "function": c.func,
                            "found_by": "concrete sampling of the contract on the real code"
                                        + (" (the obligation was DISCHARGED symbolically: engine "
                                           "divergence)" if obligations.get(oid) == "discharged" else ""),
                            "failing_input": fl["values"], "replay_on_real_code": fl,
                            "replay_spec": {"module": m, "contract": cn, "case": cr["case"],
                                            "values": fl["values"]},
                            "how_to_rerun": "cd /verif && echo '%s' | PYTHONPATH=/repo:/verif "
                                            ".venv/bin/python -m pyvc.replay" % json.dumps({
                                                "module": m, "contract": cn, "case": cr["case"],
                                                "values": fl["values"]}),
                        })
                        violations.append((oid, path, False))

    # bounded fallback: code the symbolic engine could not execute (only ever on a changed tree: the
    # unchanged tree has no such case).  A concrete failing input is a violation; finding none
    # leaves the case undecided.  Never counted as proved.
    if fallback_cases:
        ctx = mp.get_context("fork")
        jobs = [(r["module"], r["contract"], r["case"], 1500 if tier == "quick" else 20000, a.seed)
                for r in fallback_cases[:200]]
        with ctx.Pool(min(a.jobs, len(jobs))) as pool:
            outs = pool.starmap(driver.bounded_subprocess, jobs)
        for r, b in zip(fallback_cases, outs):
            cname = r["contract"]
            c = byname[cname][1]
            bounded_runs.append({"contract": c.name, "case": r["case"],
                                 "samples": b.get("samples"), "accepted": b.get("accepted"),
                                 "failures": len(b.get("failures", [])), "error": b.get("error")})
            for fl in b.get("failures", [])[:1]:
                for clause in fl["failed_clauses"][:2]:
                    oid = ob_id(c.name, r["case"], clause)
                    if known_match(known, pid, oid):
                        known_seen.append((oid, fl.get("call"), fl.get("outcome")))
                        continue
                    path = write_replay(pid, oid, {
                        "property": pid, "obligation": oid, "function": c.func,
                        "found_by": "bounded stand-in (the changed code is outside the symbolic "
                                    "engine's reach: %s)" % r["error"][:300],
                        "failing_input": fl["values"], "replay_on_real_code": fl,
                        "replay_spec": {"module": r["module"], "contract": cname,
                                        "case": r["case"], "values": fl["values"]},
                        "how_to_rerun": "cd /verif && echo '%s' | PYTHONPATH=/repo:/verif "
                                        ".venv/bin/python -m pyvc.replay" % json.dumps({
                                            "module": r["module"], "contract": cname,
                                            "case": r["case"], "values": fl["values"]}),
                    })
                    violations.append((oid, path, False))

    # stand-ins
    standin_results = []
    if not a.no_standins and (not a.only or a.only.startswith("standin:")):
        for s in collect_standins(pid):
            if a.only and s["name"] != a.only[len("standin:"):]:
                continue
            sr = run_standin(s, tier, a.seed)
            standin_results.append(sr)
            if sr.get("error"):
                crashes.append("stand-in %s: %s" % (s["name"], sr["error"]))
                continue
            for fl in sr.get("failures", []):
                oid = "standin:%s::%s" % (s["name"], fl["id"])
                kf = known_match(known, pid, oid)
                if kf:
                    known_seen.append((oid, fl.get("input"), fl.get("detail")))
                else:
                    path = write_replay(pid, oid, {"property": pid, "obligation": oid,
                                                   "standin": s["name"], "failing_input": fl})
                    violations.append((oid, path, False))

    # baseline comparison (vacuity guard i)
    base = load_baseline(pid)
    cur_ids = sorted(obligations)
    if a.update_baseline:
        save_baseline(pid, cur_ids)
        base = set(cur_ids)
    baseline_problem = None
    if not a.only:
        if base is None:
            baseline_problem = "no baseline obligation list for %s" % pid
        else:
            missing = sorted(set(base) - set(cur_ids))
            extra = sorted(set(cur_ids) - set(base))
            if missing or extra:
                baseline_problem = "obligation set differs from baseline: missing=%s extra=%s" % (
                    missing[:5], extra[:5])
        if not cur_ids and not standin_results:
            baseline_problem = "zero obligations generated"

    # obligations matched by a listed known finding are reported apart: they are expected to fail on
    # this tree and are neither counted as obligations of the claim nor as discharged
    kf_obs = {o for o in obligations if known_match(known, pid, o)}
    n_ob = len([o for o in obligations if not o.endswith("::*") and o not in kf_obs])
    n_dis = len([o for o, s in obligations.items() if s == "discharged" and o not in kf_obs])
    # known-finding obligations count as not discharged
    wall = time.time() - t_start

    printed = set()
    for oid, call, outc in dedup(known_seen):
        kf = known_match(known, pid, oid)
        key = kf["obligation"] if kf else oid
        if key in printed:
            continue
        printed.add(key)
        print("KNOWN-FINDING: property=%s %s (e.g. %s %s -> %s) %s" % (
            pid, key, oid if key != oid else "", call or "", (outc or "")[:120],
            (kf or {}).get("what", "")[:200]))
    for oid, path, nofail in violations:
        print("VIOLATION property=%s replay=%s obligation=%s%s" % (
            pid, path, oid, " no-failing-input-found" if nofail else ""))
    for u in undecided:
        print("UNDECIDED %s" % u)
    for cmsg in crashes:
        print("CHECKER-ERROR %s" % cmsg)
    if baseline_problem:
        print("BASELINE %s" % baseline_problem)

    write_evidence(pid, tier, a.seed, cs, results, obligations, n_ob, n_dis, standin_results,
                   violations, known_seen, undecided, crashes, total_paths, total_queries,
                   solver_time, models_replayed, wall, only=a.only, bounded_runs=bounded_runs,
                   conc_stats=conc_stats)
    print("%s tier=%s obligations=%d discharged=%d paths=%d queries=%d solver=%.1fs standins=%s "
          "violations=%d known=%d undecided=%d wall=%.1fs" % (
              pid, tier, n_ob, n_dis, total_paths, total_queries, solver_time,
              [(s.get("name"), s.get("evaluations")) for s in standin_results], len(violations),
              len(dedup(known_seen)), len(undecided), wall))
    if violations:
        return 1
    if crashes:
        return 3
    if undecided or baseline_problem:
        return 2
    return 0


def dedup(xs):
    seen = set()
    out = []
    for x in xs:
        if x[0] in seen:
            continue
        seen.add(x[0])
        out.append(x)
    return out


def _baseline_path():
    return os.path.join(VERIF, "baseline", "obligations.json")


_TIER = ["quick"]


def _bkey(pid):
    return pid if _TIER[0] == "quick" else "%s/%s" % (pid, _TIER[0])


def load_baseline(pid):
    p = _baseline_path()
    if not os.path.exists(p):
        return None
    d = json.load(open(p))
    if _bkey(pid) not in d:
        return None
    return set(d[_bkey(pid)])


def save_baseline(pid, ids):
    p = _baseline_path()
    os.makedirs(os.path.dirname(p), exist_ok=True)
    d = json.load(open(p)) if os.path.exists(p) else {}
    d[_bkey(pid)] = ids
    with open(p, "w") as f:
        json.dump(d, f, indent=0, sort_keys=True)


def scan_assumptions():
    """mechanical scan of the contract files for explicitly trusted / assumed items"""
    out = []
    cdir = os.path.join(VERIF, "contracts")
    for fn in sorted(os.listdir(cdir)):
        if not fn.endswith(".py"):
            continue
        for i, line in enumerate(open(os.path.join(cdir, fn), encoding="utf-8"), 1):
            if "TRUSTED:" in line or "ASSUME:" in line or "INLINE:" in line:
                out.append("%s:%d %s" % (fn, i, line.strip().lstrip("# ")))
    return out


def write_evidence(pid, tier, seed, cs, results, obligations, n_ob, n_dis, standin_results,
                   violations, known_seen, undecided, crashes, total_paths, total_queries,
                   solver_time, models_replayed, wall, only=None, bounded_runs=(), conc_stats=None):
    from pyvc import instrument

    import contracts

    level = contracts.LEVELS.get(pid, "other")
    funcs = sorted({c.func for (_, c) in cs})
    samples = []
    for r in results[:6]:
        samples.append({"contract": r["contract"], "case": r["case"],
                        "paths": (r.get("stats") or {}).get("paths"),
                        "clauses": {k: v for k, v in list(r.get("clauses", {}).items())[:4]},
                        "outcomes": r.get("samples")})
    for s in standin_results:
        for smp in (s.get("samples") or [])[:3]:
            samples.append({"standin": s.get("name"), "case": smp})
    models = set()
    for r in results:
        pass
    standin_eval = sum(s.get("evaluations", 0) for s in standin_results)
    standin_distinct = sum(s.get("distinct_nontrivial", 0) for s in standin_results)
    trusted = list(contracts.TRUSTED_BASE.get(pid, contracts.TRUSTED_BASE["*"]))
    cov = {
        "obligations": n_ob,
        "discharged": n_dis,
        "checker_cmd": "./check %s --tier %s  (pyvc: instrumented execution of /repo source, "
                       "z3 %s via z3-solver)" % (pid, tier, _z3v()),
        "trusted_base": trusted,
        "explanation": contracts.EXPLANATION.get(pid) or (
            "contract obligations on the real code discharged by z3 for all values of the symbolic "
            "inputs (proof part) plus the listed stand-ins (bounded/exhaustive run-time evaluation "
            "of assumed contracts, never counted as proved); see DESIGN.md"),
        "functions_under_contract": funcs,
        "contracts": sorted({c.name for (_, c) in cs}),
        "cases": len(results),
        "paths": total_paths,
        "queries_by_backend": {
            "z3": total_queries,
            "z3 (fresh non-incremental instance, for queries the incremental solver left open)":
                BACKENDS["z3_fresh"],
            "cvc5 1.0.3 (asked about queries both z3 instances left open)": BACKENDS["cvc5_asked"],
            "cvc5 answered unsat": BACKENDS["cvc5_unsat"],
            "interval evaluator (branch conditions implied by the declared input ranges; no solver call)":
                BACKENDS["interval"],
        },
        "solver_time_s": round(solver_time, 2),
        "counter_models_replayed": models_replayed,
        "obligation_status": {k: sum(1 for v in obligations.values() if v == k)
                              for k in sorted(set(obligations.values()))},
        "known_findings_seen": [k[0] for k in dedup(known_seen)],
        "known_finding_obligations_excluded_from_the_count": sorted(
            o for o in obligations if known_match(load_known(), pid, o))[:40],
        "undecided": undecided[:20],
        "checker_errors": crashes[:20],
        "standins": [{k: v for k, v in s.items() if k not in ("failures", "samples")}
                     for s in standin_results],
        "bounded_fallback_runs": bounded_runs[:50],
        "concrete_sampling": conc_stats,
        "standin_failures": sum(len(s.get("failures", [])) for s in standin_results),
        "evaluations": max(1, standin_eval + total_paths),
        "distinct_nontrivial": max(2, standin_distinct + n_ob),
        "rule": "proof part: one obligation per (contract, case, clause), all inputs symbolic; "
                "stand-in part: " + "; ".join(s.get("rule", "") for s in standin_results),
        "samples": samples or [{"note": "no cases"}],
        "instrumented_files": len(instrument.rewritten_files),
        "rewritten_nodes": {k: sum(v[k] for v in instrument.rewritten_files.values())
                            for k in ("calls", "mods", "ins")},
        "assumed_contracts_scan": scan_assumptions(),
        "partial_run_filter": only,
    }
    ev = {
        "property_id": pid,
        "tier": tier,
        "seed": seed,
        "level": level,
        "coverage": cov,
        "assumptions": trusted,
        "wall_s": round(wall, 2),
        "violations": len(violations),
    }
    if only:
        # a debugging run over part of the obligations must not replace the property's evidence
        return
    d = os.environ.get("VERIF_EVIDENCE_DIR") or os.path.join(VERIF, "evidence")
    os.makedirs(d, exist_ok=True)
    try:
        import jsonschema

        schema = json.load(open("/root/.vp/EVIDENCE.schema.json"))
        jsonschema.validate(ev, schema)
    except FileNotFoundError:
        pass
    with open(os.path.join(d, "%s.json" % pid), "w", encoding="utf-8") as f:
        json.dump(ev, f, indent=1, default=repr, ensure_ascii=False)


def _z3v():
    import z3

    return z3.get_version_string()


if __name__ == "__main__":
    try:
        rc = main()
    except SystemExit:
        raise
    except BaseException:
        traceback.print_exc()
        print("CHECKER-ERROR runner crashed")
        rc = 3
    sys.exit(rc)
