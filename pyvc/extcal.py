"""Assumed contracts of the external calendar converters (convertdate.persian, hijridate).

They ARE C15's reference conversion, so they stay uninterpreted: TOG(cal, y, m, d) -> (gy, gm, gd),
FROMG(cal, gy, gm, gd) -> (y, m, d), ML(cal, y, m) -> month length.  With concrete arguments the real
converter is called.  ASSUME (checked exhaustively over the supported ranges by tools/selftest.py):
inside the supported range to_gregorian yields a valid Gregorian date in 1..9999 and month lengths lie
in 29..31.
"""
import z3

from .core import SInt, cur, is_sym, mk_int, toint_z3

_I = z3.IntSort()
TOG = [z3.Function("tog_%s" % k, _I, _I, _I, _I, _I) for k in "ymd"]
FROMG = [z3.Function("fromg_%s" % k, _I, _I, _I, _I, _I) for k in "ymd"]
ML = z3.Function("month_length", _I, _I, _I, _I)
CAL_ID = {"persian": 1, "hijri": 2}
RANGES = {"persian": (1200, 1500), "hijri": (1343, 1500)}


def _anysym(*xs):
    return any(is_sym(x) for x in xs)


def to_gregorian(cal, real, year, month, day):
    if not _anysym(year, month, day):
        return tuple(real(year, month, day))
    from .cal import z_valid_date

    p = cur()
    c = z3.IntVal(CAL_ID[cal])
    a = [toint_z3(v) for v in (year, month, day)]
    g = [f(c, *a) for f in TOG]
    lo, hi = RANGES[cal]
    p._add(z3.Implies(z3.And(a[0] >= lo, a[0] <= hi, a[1] >= 1, a[1] <= 12, a[2] >= 1,
                             a[2] <= ML(c, a[0], a[1])),
                      z3.And(z_valid_date(*g), g[0] >= 1700, g[0] <= 2200)))
    return tuple(mk_int(x) for x in g)


def from_gregorian(cal, real, year, month, day):
    if not _anysym(year, month, day):
        return tuple(real(year, month, day))
    p = cur()
    c = z3.IntVal(CAL_ID[cal])
    a = [toint_z3(v) for v in (year, month, day)]
    r = [f(c, *a) for f in FROMG]
    p._add(z3.And(r[1] >= 1, r[1] <= 12, r[2] >= 1, r[2] <= 31))
    return tuple(mk_int(x) for x in r)


def month_length(cal, real, year, month):
    if not _anysym(year, month):
        return real(year, month)
    p = cur()
    zm = toint_z3(month)
    e = ML(z3.IntVal(CAL_ID[cal]), toint_z3(year), zm)
    if cal == "hijri":
        # lunar months of 29 or 30 days; the Umm al-Qura table of hijridate also has a handful of
        # 28- and 31-day months (1343-09, 1345-05, ...): found by standins.selftest
        p._add(z3.And(e >= 28, e <= 31))
    else:
        # Solar Hijri: six months of 31, five of 30, Esfand 29 or 30
        p._add(z3.If(z3.And(zm >= 1, zm <= 6), e == 31,
                     z3.If(z3.And(zm >= 7, zm <= 11), e == 30, z3.And(e >= 29, e <= 30))))
    return mk_int(e)


def spec_to_gregorian(cal, y, m, d):
    """spec side: the same reference conversion (real converter on concrete values)"""
    if not _anysym(y, m, d):
        try:
            if cal == "persian":
                from convertdate import persian

                return tuple(persian.to_gregorian(y, m, d))
            from hijridate import Hijri

            return Hijri(year=y, month=m, day=d, validate=False).to_gregorian().datetuple()
        except Exception:
            return (0, 0, 0)  # outside the converter's domain: callers use it only under `valid`
    return to_gregorian(cal, None, y, m, d)


def spec_month_length(cal, y, m):
    if not _anysym(y, m):
        try:
            if cal == "persian":
                from convertdate import persian

                return persian.month_length(y, m)
            from hijridate import Hijri

            return Hijri(year=y, month=m, day=1).month_length()
        except Exception:
            return 0
    return month_length(cal, None, y, m)


def register(reg, MODELS):
    """called from instrument._build_tables"""
    try:
        from convertdate import persian
    except ImportError:
        persian = None
    if persian is not None:
        rt, rf, rm = persian.to_gregorian, persian.from_gregorian, persian.month_length
        reg(rt, lambda year=None, month=None, day=None: to_gregorian("persian", rt, year, month, day),
            "convertdate.persian.to_gregorian [uninterpreted]")
        reg(rf, lambda year=None, month=None, day=None: from_gregorian("persian", rf, year, month, day),
            "convertdate.persian.from_gregorian [uninterpreted]")
        reg(rm, lambda year, month: month_length("persian", rm, year, month),
            "convertdate.persian.month_length [uninterpreted]")
    try:
        import hijridate
    except ImportError:
        return

    class _G:
        def __init__(self, t):
            self.t = t

        def datetuple(self):
            return self.t

    class SHijri:
        def __init__(self, year, month, day, validate=True):
            self.y, self.m, self.d = year, month, day

        def to_gregorian(self):
            real = lambda y, m, d: hijridate.Hijri(y, m, d, validate=False).to_gregorian().datetuple()
            return _G(to_gregorian("hijri", real, self.y, self.m, self.d))

        def month_length(self):
            real = lambda y, m: hijridate.Hijri(y, m, 1).month_length()
            return month_length("hijri", real, self.y, self.m)

        def datetuple(self):
            return (self.y, self.m, self.d)

    class SGregorian:
        def __init__(self, year, month, day):
            self.y, self.m, self.d = year, month, day

        def to_hijri(self):
            real = lambda y, m, d: hijridate.Gregorian(y, m, d).to_hijri().datetuple()
            return _G(from_gregorian("hijri", real, self.y, self.m, self.d))

    reg(hijridate.Hijri, SHijri, "hijridate.Hijri [uninterpreted conversion]")
    reg(hijridate.Gregorian, SGregorian, "hijridate.Gregorian [uninterpreted conversion]")
