"""Backtracking regular-expression matcher over skeleton strings.

The pattern text and flags are always those of the real compiled object (`regex` or `re`) found in the
imported modules; the syntax tree comes from the stdlib parser (`re._parser`).  Matching follows the
leftmost, priority-ordered backtracking semantics shared by `re` and `regex` (V0) for the constructs
below; any other construct is Unsupported.  A test on a symbolic digit yields a symbolic truth value;
using it as a condition forks the path (pyvc.core), so along every path the matcher behaves like a
concrete matcher.  Trusted component: cross-checked against both real engines (tools/selftest.py).
"""
import re
import re._constants as C
import re._parser as P

import z3

from .core import SBool, SInt, Unsupported, mk_bool
from .sstr import DIGITS, SStr, items_of, mk_str

_cache = {}


def _re_flags(pat):
    """flags of a compiled pattern object mapped to stdlib `re` flag bits"""
    f = pat.flags
    mod = type(pat).__module__
    if mod.startswith("regex"):
        import regex

        out = 0
        for name in ("I", "M", "S", "X", "U"):
            if f & getattr(regex, name):
                out |= getattr(re, name)
        if f & regex.A:
            out |= re.A
        if f & getattr(regex, "V1", 0):
            raise Unsupported("regex V1 pattern")
        for name in ("F", "B", "E", "P", "R", "W", "L"):
            if f & getattr(regex, name, 0):
                raise Unsupported("regex flag %s" % name)
        return out
    return f & (re.I | re.M | re.S | re.X | re.U | re.A)


def parsed(pattern, flags=0):
    if not isinstance(pattern, str):
        flags = _re_flags(pattern)
        pattern = pattern.pattern
    if not isinstance(pattern, str):
        raise Unsupported("bytes pattern")
    key = (pattern, flags)
    if key not in _cache:
        try:
            tree = P.parse(pattern, flags)
            _cache[key] = (tree, tree.state.flags, dict(tree.state.groupdict), tree.state.groups)
        except re.error as e:
            if "redefinition of group name" in str(e):
                _cache[key] = _parse_with_duplicate_names(pattern, flags)
            else:
                raise Unsupported("pattern not parseable by the stdlib parser: %r (%s)" % (pattern, e))
    return _cache[key]


def _parse_with_duplicate_names(pattern, flags):
    """the `regex` module lets alternatives reuse a group name; such groups SHARE one group number.
    Parse with the duplicates renamed, then renumber: duplicates take the number of the first."""
    import re as _re

    seen = {}
    alias = {}

    def ren(m):
        name = m.group(1)
        k = seen.get(name, 0)
        seen[name] = k + 1
        if k == 0:
            return m.group(0)
        new = "%s__dup%d" % (name, k)
        alias[new] = name
        return "(?P<%s>" % new

    renamed = _re.sub(r"\(\?P<([A-Za-z_][A-Za-z0-9_]*)>", ren, pattern)
    try:
        tree = P.parse(renamed, flags)
    except re.error as e:
        raise Unsupported("pattern not parseable by the stdlib parser: %r (%s)" % (pattern, e))
    gd = dict(tree.state.groupdict)
    # old group id -> new group id (regex numbering: a duplicate name reuses the first one's number)
    first_id = {}
    remap = {}
    nxt = 1
    id_to_name = {v: k for k, v in gd.items()}
    for old in range(1, tree.state.groups):
        nm = id_to_name.get(old)
        base = alias.get(nm, nm) if nm else None
        if base is not None and base in first_id:
            remap[old] = first_id[base]
        else:
            remap[old] = nxt
            if base is not None:
                first_id[base] = nxt
            nxt += 1

    def rewrite(nodes):
        out = []
        for op, av in nodes:
            if op == C.SUBPATTERN:
                g, a, d, p = av
                out.append((op, (remap.get(g, g) if g is not None else None, a, d, rewrite(p))))
            elif op in (C.MAX_REPEAT, C.MIN_REPEAT):
                out.append((op, (av[0], av[1], rewrite(av[2]))))
            elif op == C.BRANCH:
                out.append((op, (av[0], [rewrite(x) for x in av[1]])))
            elif op in (C.ASSERT, C.ASSERT_NOT):
                out.append((op, (av[0], rewrite(av[1]))))
            elif op == C.GROUPREF:
                out.append((op, remap.get(av, av)))
            else:
                out.append((op, av))
        return out

    new_gd = {name: first_id[name] for name in first_id}
    return (rewrite(tree), tree.state.flags, new_gd, nxt)


def _is_word(it):
    if isinstance(it, SInt):
        return True
    return it.isalnum() or it == "_"


def _cat(cat, ch, ascii_only):
    if cat == C.CATEGORY_DIGIT:
        return ch in DIGITS if ascii_only else ch.isdecimal()
    if cat == C.CATEGORY_NOT_DIGIT:
        return not (ch in DIGITS if ascii_only else ch.isdecimal())
    if cat == C.CATEGORY_SPACE:
        return ch in " \t\n\r\f\v" if ascii_only else ch.isspace()
    if cat == C.CATEGORY_NOT_SPACE:
        return not (ch in " \t\n\r\f\v" if ascii_only else ch.isspace())
    if cat == C.CATEGORY_WORD:
        if ascii_only:
            return ch.isascii() and (ch.isalnum() or ch == "_")
        return ch.isalnum() or ch == "_"
    if cat == C.CATEGORY_NOT_WORD:
        return not _cat(C.CATEGORY_WORD, ch, ascii_only)
    raise Unsupported("regex category %s" % cat)


def _ci_variants(ch):
    return {ch, ch.lower(), ch.upper()}


def _set_has(av, ch, flags):
    """membership of a concrete character in an IN set"""
    neg = False
    items = av
    if items and items[0][0] == C.NEGATE:
        neg = True
        items = items[1:]
    ascii_only = bool(flags & re.A)
    cands = _ci_variants(ch) if flags & re.I else (ch,)
    hit = False
    for op, a in items:
        for c in cands:
            if op == C.LITERAL:
                if ord(c) == a:
                    hit = True
            elif op == C.RANGE:
                if a[0] <= ord(c) <= a[1]:
                    hit = True
            elif op == C.CATEGORY:
                if _cat(a, c, ascii_only):
                    hit = True
            else:
                raise Unsupported("set item %s" % (op,))
        if hit:
            break
    return hit != neg


def _digit_test(d, accepted):
    """symbolic digit d in a set of accepted digit values -> bool or SBool"""
    if len(accepted) == 10:
        return True
    if not accepted:
        return False
    return mk_bool(z3.Or(*[d.e == v for v in sorted(accepted)]))


def _item_in_set(it, av, flags):
    if isinstance(it, str):
        return _set_has(av, it, flags)
    return _digit_test(it, {v for v in range(10) if _set_has(av, DIGITS[v], flags)})


def _item_is_lit(it, code, flags):
    ch = chr(code)
    if isinstance(it, str):
        if flags & re.I:
            return bool(_ci_variants(it) & _ci_variants(ch))
        return it == ch
    if ch in DIGITS:
        return mk_bool(it.e == int(ch))
    return False


_SIMPLE = (C.LITERAL, C.NOT_LITERAL, C.ANY, C.IN, C.CATEGORY)


class _M:
    def __init__(self, tree, flags, items):
        self.tree = tree
        self.flags = flags
        self.items = items
        self.n = len(items)

    # continuation-passing backtracking matcher; returns (endpos, caps) or None
    def seq(self, nodes, i, pos, caps, k):
        if i == len(nodes):
            return k(pos, caps)
        op, av = nodes[i]
        if op in _SIMPLE:
            # a maximal run of single-character nodes has no internal choice point: test it as one
            # condition (one decision instead of one per character)
            j = i
            while j < len(nodes) and nodes[j][0] in _SIMPLE:
                j += 1
            c = self.run_cond(nodes, i, j, pos)
            if c is False:
                return None
            if c is True or bool(c):
                return self.seq(nodes, j, pos + (j - i), caps, k)
            return None
        return self.node(op, av, pos, caps, lambda p, c: self.seq(nodes, i + 1, p, c, k))

    def char_cond(self, op, av, it):
        flags = self.flags
        if op == C.LITERAL:
            return _item_is_lit(it, av, flags)
        if op == C.NOT_LITERAL:
            r = _item_is_lit(it, av, flags)
            return (not r) if isinstance(r, bool) else mk_bool(z3.Not(r.e))
        if op == C.ANY:
            return bool(flags & re.S) or it != "\n"
        if op == C.IN:
            return _item_in_set(it, av, flags)
        return _item_in_set(it, [(C.CATEGORY, av)], flags)

    def run_cond(self, nodes, i, j, pos):
        """condition under which nodes[i:j] (single-character nodes) match at pos"""
        if pos + (j - i) > self.n:
            return False
        cs = []
        for t in range(i, j):
            c = self.char_cond(nodes[t][0], nodes[t][1], self.items[pos + t - i])
            if c is False:
                return False
            if c is not True:
                cs.append(c.e)
        if not cs:
            return True
        return mk_bool(z3.And(*cs))

    def simple_len(self, alt):
        """length of an alternative made only of single-character nodes, else None"""
        for op, _ in alt:
            if op not in _SIMPLE:
                return None
        return len(alt)

    def node(self, op, av, pos, caps, k):
        items, n, flags = self.items, self.n, self.flags
        if op == C.LITERAL:
            if pos < n and _item_is_lit(items[pos], av, flags):
                return k(pos + 1, caps)
            return None
        if op == C.NOT_LITERAL:
            if pos < n and not _item_is_lit(items[pos], av, flags):
                return k(pos + 1, caps)
            return None
        if op == C.ANY:
            if pos < n and (flags & re.S or items[pos] != "\n"):
                return k(pos + 1, caps)
            return None
        if op == C.IN:
            if pos < n and _item_in_set(items[pos], av, flags):
                return k(pos + 1, caps)
            return None
        if op == C.CATEGORY:
            if pos < n and _item_in_set(items[pos], [(C.CATEGORY, av)], flags):
                return k(pos + 1, caps)
            return None
        if op == C.BRANCH:
            alts = av[1]
            a = 0
            while a < len(alts):
                L = self.simple_len(alts[a])
                if L is None:
                    r = self.seq(alts[a], 0, pos, caps, k)
                    if r is not None:
                        return r
                    a += 1
                    continue
                # consecutive simple alternatives of one length end at the same position with the
                # same captures: which of them matched cannot matter to the continuation
                b = a
                conds = []
                while b < len(alts) and self.simple_len(alts[b]) == L:
                    conds.append(self.run_cond(alts[b], 0, L, pos))
                    b += 1
                if any(c is True for c in conds):
                    c = True
                else:
                    cs = [c.e for c in conds if c is not False]
                    c = mk_bool(z3.Or(*cs)) if cs else False
                if c is True or (c is not False and bool(c)):
                    r = k(pos + L, caps)
                    if r is not None:
                        return r
                a = b
            return None
        if op == C.SUBPATTERN:
            group, add, dele, p = av
            if add or dele:
                raise Unsupported("scoped inline flags")

            def after(p2, c2):
                if group is not None:
                    c2 = dict(c2)
                    c2[group] = (pos, p2)
                return k(p2, c2)

            return self.seq(p, 0, pos, caps, after)
        if op in (C.MAX_REPEAT, C.MIN_REPEAT):
            lo, hi, p = av
            greedy = op == C.MAX_REPEAT

            def rep(count, pos1, caps1):
                def more():
                    if hi is C.MAXREPEAT or count < hi:
                        return self.seq(
                            p,
                            0,
                            pos1,
                            caps1,
                            lambda p2, c2: None
                            if (p2 == pos1 and count >= lo)
                            else rep(count + 1, p2, c2),
                        )
                    return None

                def stop():
                    if count >= lo:
                        return k(pos1, caps1)
                    return None

                if greedy:
                    r = more()
                    return r if r is not None else stop()
                r = stop()
                return r if r is not None else more()

            return rep(0, pos, caps)
        if op == C.AT:
            if self.at(av, pos):
                return k(pos, caps)
            return None
        if op in (C.ASSERT, C.ASSERT_NOT):
            direction, p = av
            if direction > 0:
                r = self.seq(p, 0, pos, caps, lambda p2, c2: (p2, c2))
            else:
                r = None
                for start in range(pos, -1, -1):
                    r = self.seq(p, 0, start, caps, lambda p2, c2: (p2, c2) if p2 == pos else None)
                    if r is not None:
                        break
            if op == C.ASSERT:
                if r is None:
                    return None
                return k(pos, r[1])
            if r is not None:
                return None
            return k(pos, caps)
        if op == C.GROUPREF:
            if av not in caps:
                return None
            a, b = caps[av]
            m = b - a
            if pos + m > n:
                return None
            from .sstr import seq_eq

            if seq_eq(items[a:b], items[pos : pos + m]):
                return k(pos + m, caps)
            return None
        raise Unsupported("regex construct %s" % (op,))

    def at(self, av, pos):
        items, n, flags = self.items, self.n, self.flags
        if av == C.AT_BEGINNING:
            if pos == 0:
                return True
            return bool(flags & re.M) and items[pos - 1] == "\n"
        if av == C.AT_BEGINNING_STRING:
            return pos == 0
        if av == C.AT_END:
            if pos == n:
                return True
            if pos == n - 1 and items[pos] == "\n":
                return True
            return bool(flags & re.M) and items[pos] == "\n"
        if av == C.AT_END_STRING:
            return pos == n
        if av in (C.AT_BOUNDARY, C.AT_NON_BOUNDARY):
            before = pos > 0 and _is_word(items[pos - 1])
            after = pos < n and _is_word(items[pos])
            b = before != after
            return b if av == C.AT_BOUNDARY else not b
        raise Unsupported("regex anchor %s" % (av,))


class SMatch:
    def __init__(self, subject, items, start, end, caps, groupindex, ngroups, pattern):
        self.string = subject
        self._items = items
        self._caps = dict(caps)
        self._caps[0] = (start, end)
        self._gi = groupindex
        self._n = ngroups
        self.re = pattern
        self.pos = 0
        self.endpos = len(items)

    def _idx(self, g):
        if isinstance(g, str):
            if g not in self._gi:
                raise IndexError("no such group")
            return self._gi[g]
        if not (0 <= g < self._n):
            raise IndexError("no such group")
        return g

    def _get(self, g, default=None):
        g = self._idx(g)
        if g not in self._caps:
            return default
        a, b = self._caps[g]
        return mk_str(self._items[a:b])

    def group(self, *gs):
        if not gs:
            return self._get(0)
        if len(gs) == 1:
            return self._get(gs[0])
        return tuple(self._get(g) for g in gs)

    __getitem__ = lambda self, g: self._get(g)

    def groups(self, default=None):
        return tuple(self._get(g, default) for g in range(1, self._n))

    def groupdict(self, default=None):
        return {name: self._get(i, default) for name, i in self._gi.items()}

    def span(self, g=0):
        g = self._idx(g)
        return self._caps.get(g, (-1, -1))

    def start(self, g=0):
        return self.span(g)[0]

    def end(self, g=0):
        return self.span(g)[1]

    @property
    def lastindex(self):
        raise Unsupported("Match.lastindex")

    def expand(self, template):
        return _expand(self, template)

    def __bool__(self):
        return True

    def __repr__(self):
        return "<SMatch span=%r>" % (self.span(),)


def _match_at(pattern, subject, pos, full=False, flags=0, nonempty=False):
    tree, fl, gi, ng = parsed(pattern, flags)
    items = items_of(subject)
    m = _M(tree, fl, items)

    def fin(p, c):
        if full and p != len(items):
            return None
        if nonempty and p == pos:
            return None
        return (p, c)

    r = m.seq(list(tree), 0, pos, {}, fin)
    if r is None:
        return None
    return SMatch(subject, items, pos, r[0], r[1], gi, ng, pattern)


def match(pattern, subject, flags=0, pos=0):
    return _match_at(pattern, subject, pos, flags=flags)


def fullmatch(pattern, subject, flags=0):
    return _match_at(pattern, subject, 0, full=True, flags=flags)


def search(pattern, subject, flags=0, pos=0):
    n = len(items_of(subject))
    for start in range(pos, n + 1):
        r = _match_at(pattern, subject, start, flags=flags)
        if r is not None:
            return r
    return None


def finditer(pattern, subject, flags=0):
    """successive matches with CPython's rule: directly after an empty match the next match must
    not be empty at the same position (state->must_advance)"""
    n = len(items_of(subject))
    pos = 0
    must_advance = False
    out = []
    while pos <= n:
        r = None
        start = pos
        while start <= n:
            r = _match_at(
                pattern, subject, start, flags=flags, nonempty=(must_advance and start == pos)
            )
            if r is not None:
                break
            start += 1
        if r is None:
            break
        out.append(r)
        must_advance = r.end() == r.start()
        pos = r.end()
    return out


def findall(pattern, subject, flags=0):
    tree, fl, gi, ng = parsed(pattern, flags)
    out = []
    for m in finditer(pattern, subject, flags):
        if ng == 1:
            out.append(m.group(0))
        elif ng == 2:
            g = m.group(1)
            out.append("" if g is None else g)
        else:
            out.append(tuple("" if g is None else g for g in m.groups()))
    return out


def _expand(m, template):
    if callable(template):
        return template(m)
    if isinstance(template, SStr):
        raise Unsupported("symbolic replacement template")
    if "\\" not in template:
        return template
    # use the stdlib template parser on the real text
    tree, fl, gi, ng = parsed(m.re)

    class _Pat:
        groups = ng - 1
        groupindex = gi

    tpl = P.parse_template(template, _Pat)
    # py3.12: parse_template returns a list alternating literals and group indices
    out = []
    for part in tpl:
        if isinstance(part, int):
            g = m.group(part)
            if g is None:
                g = ""
            out.extend(items_of(g))
        elif part is not None:
            out.extend(part)
    return mk_str(out)


def sub(pattern, repl, subject, count=0, flags=0):
    r, _ = subn(pattern, repl, subject, count, flags)
    return r


def subn(pattern, repl, subject, count=0, flags=0):
    items = items_of(subject)
    out = []
    last = 0
    k = 0
    for m in finditer(pattern, subject, flags):
        if count and k >= count:
            break
        a, b = m.span()
        out.extend(items[last:a])
        out.extend(items_of(_expand(m, repl)))
        last = b
        k += 1
    out.extend(items[last:])
    return mk_str(out), k


def split(pattern, subject, maxsplit=0, flags=0):
    items = items_of(subject)
    out = []
    last = 0
    k = 0
    for m in finditer(pattern, subject, flags):
        if maxsplit and k >= maxsplit:
            break
        a, b = m.span()
        out.append(mk_str(items[last:a]))
        for g in m.groups():
            out.append(g)
        last = b
        k += 1
    out.append(mk_str(items[last:]))
    return out
