"""Calendar theory: the assumed contract of datetime / date / time / timedelta / calendar.

A naive datetime is seven integers under the proleptic Gregorian validity predicate; arithmetic goes
through the day ordinal, all of it linear integer arithmetic with division by constants.  Constructor
and replace() raise ValueError with CPython 3.12's message text where validity fails; +/- raise
OverflowError outside [0001-01-01, 9999-12-31].  Aware datetimes carry a tzinfo object; their offset
comes from the zone theory (pyvc.zone).  Cross-checked against CPython by tools/selftest.py.
"""
import datetime as _dt

import z3

from .core import (
    SBool,
    SInt,
    Sym,
    Unsupported,
    cur,
    is_sym,
    mk_bool,
    mk_int,
    toint_z3,
    tobool_z3,
)

MAXORD = 3652059
US_DAY = 86400 * 1000000
_DBM = [None, 0, 31, 59, 90, 120, 151, 181, 212, 243, 273, 304, 334]
_DIM = [None, 31, 28, 31, 30, 31, 30, 31, 31, 30, 31, 30, 31]


def _z(x):
    return toint_z3(x)


def z_isleap(y):
    y = _z(y)
    return z3.And(y % 4 == 0, z3.Or(y % 100 != 0, y % 400 == 0))


def z_dim(y, m):
    m = _z(m)
    e = z3.IntVal(31)
    for mm in (4, 6, 9, 11):
        e = z3.If(m == mm, 30, e)
    e = z3.If(m == 2, z3.If(z_isleap(y), 29, 28), e)
    return e


def z_dbm(y, m):
    m = _z(m)
    e = z3.IntVal(0)
    for mm in range(2, 13):
        e = z3.If(m == mm, _DBM[mm], e)
    return e + z3.If(z3.And(m > 2, z_isleap(y)), 1, 0)


def z_ordinal(y, m, d):
    y1 = _z(y) - 1
    return y1 * 365 + y1 / 4 - y1 / 100 + y1 / 400 + z_dbm(y, m) + _z(d)


def z_valid_date(y, m, d):
    y, m, d = _z(y), _z(m), _z(d)
    return z3.And(y >= 1, y <= 9999, m >= 1, m <= 12, d >= 1, d <= z_dim(y, m))


def z_valid_time(H, M, S, us):
    H, M, S, us = _z(H), _z(M), _z(S), _z(us)
    return z3.And(H >= 0, H <= 23, M >= 0, M <= 59, S >= 0, S <= 59, us >= 0, us <= 999999)


def isleap(y):
    if isinstance(y, int):
        return y % 4 == 0 and (y % 100 != 0 or y % 400 == 0)
    return mk_bool(z_isleap(y))


def dim(y, m):
    """days in month (spec function; dual use)"""
    if isinstance(y, int) and isinstance(m, int):
        # total, like the symbolic version (31 for anything that is not a 30-day month or February)
        if m == 2:
            return 29 if isleap(y) else 28
        return 30 if m in (4, 6, 9, 11) else 31
    return mk_int(z_dim(y, m))


def ordinal(y, m, d):
    if all(isinstance(v, int) for v in (y, m, d)):
        return _dt.date(y, m, d).toordinal()
    return mk_int(z_ordinal(y, m, d))


def weekday_of(y, m, d):
    o = ordinal(y, m, d)
    return (o + 6) % 7


def _anysym(*xs):
    return any(is_sym(x) for x in xs)


def _check_int(name, v):
    if isinstance(v, (SInt,)):
        return
    if isinstance(v, bool) or not isinstance(v, int):
        if isinstance(v, float):
            raise TypeError("'float' object cannot be interpreted as an integer")
        if isinstance(v, Sym):
            raise Unsupported("datetime field %s of type %s" % (name, type(v).__name__))
        raise TypeError("'%s' object cannot be interpreted as an integer" % type(v).__name__)


def _rng(lo, v, hi):
    from .core import And

    return And(lo <= v, v <= hi)


def _validate_date(y, m, d):
    if not _rng(1, y, 9999):
        raise ValueError("year %s is out of range" % (y if isinstance(y, int) else "<sym>"))
    if not _rng(1, m, 12):
        raise ValueError("month must be in 1..12")
    if not _rng(1, d, dim(y, m)):
        raise ValueError("day is out of range for month")


def _validate_time(H, M, S, us):
    if not _rng(0, H, 23):
        raise ValueError("hour must be in 0..23")
    if not _rng(0, M, 59):
        raise ValueError("minute must be in 0..59")
    if not _rng(0, S, 59):
        raise ValueError("second must be in 0..59")
    if not _rng(0, us, 999999):
        raise ValueError("microsecond must be in 0..999999")


def _td_us(td):
    """timedelta-like -> total microseconds (int or SInt)"""
    if isinstance(td, _dt.timedelta):
        return (td.days * 86400 + td.seconds) * 1000000 + td.microseconds
    if isinstance(td, STimeDelta):
        return td.us
    raise Unsupported("timedelta expected, got %s" % type(td).__name__)


def mk_timedelta(us):
    if isinstance(us, int):
        return _dt.timedelta(microseconds=us)
    return STimeDelta(us)


class STimeDelta(Sym):
    __slots__ = ("us",)

    def __init__(self, us):
        self.us = us

    def __repr__(self):
        return "STimeDelta(%r us)" % (self.us,)

    @property
    def days(self):
        return self.us // US_DAY

    @property
    def seconds(self):
        return (self.us % US_DAY) // 1000000

    @property
    def microseconds(self):
        return self.us % 1000000

    def total_seconds(self):
        raise Unsupported("timedelta.total_seconds() (floats are not modelled)")

    def __bool__(self):
        return bool(self.us != 0)

    def __bool_sym__(self):
        return self.us != 0

    def __neg__(self):
        return mk_timedelta(-self.us)

    def __add__(self, o):
        if isinstance(o, (_dt.timedelta, STimeDelta)):
            return mk_timedelta(self.us + _td_us(o))
        return NotImplemented

    __radd__ = __add__

    def __sub__(self, o):
        if isinstance(o, (_dt.timedelta, STimeDelta)):
            return mk_timedelta(self.us - _td_us(o))
        return NotImplemented

    def __rsub__(self, o):
        if isinstance(o, (_dt.timedelta, STimeDelta)):
            return mk_timedelta(_td_us(o) - self.us)
        return NotImplemented

    def __mul__(self, k):
        if isinstance(k, (int, SInt)):
            return mk_timedelta(self.us * k)
        return NotImplemented

    __rmul__ = __mul__

    def _cmp(self, o, op):
        if isinstance(o, (_dt.timedelta, STimeDelta)):
            return op(self.us, _td_us(o))
        return NotImplemented

    def __lt__(self, o):
        return self._cmp(o, lambda a, b: a < b)

    def __le__(self, o):
        return self._cmp(o, lambda a, b: a <= b)

    def __gt__(self, o):
        return self._cmp(o, lambda a, b: a > b)

    def __ge__(self, o):
        return self._cmp(o, lambda a, b: a >= b)

    def __eq__(self, o):
        if isinstance(o, (_dt.timedelta, STimeDelta)):
            return self.us == _td_us(o)
        return False

    def __ne__(self, o):
        if isinstance(o, (_dt.timedelta, STimeDelta)):
            return self.us != _td_us(o)
        return True

    __hash__ = Sym.__hash__


def model_timedelta(days=0, seconds=0, microseconds=0, milliseconds=0, minutes=0, hours=0, weeks=0):
    args = (days, seconds, microseconds, milliseconds, minutes, hours, weeks)
    if not _anysym(*args):
        return _dt.timedelta(*args)
    for a in args:
        if isinstance(a, float):
            raise Unsupported("float timedelta argument mixed with symbolic ones")
    us = (
        ((weeks * 7 + days) * 24 + hours) * 3600 * 1000000
        + minutes * 60 * 1000000
        + seconds * 1000000
        + milliseconds * 1000
        + microseconds
    )
    # CPython: OverflowError if |days| > 999999999
    lim = 999999999 * US_DAY
    if not (us <= lim) or not (us >= -lim):
        raise OverflowError("days=%s; must have magnitude <= 999999999" % "<sym>")
    return mk_timedelta(us)


class SDate(Sym):
    __slots__ = ("y", "m", "d")

    def __init__(self, y, m, d):
        self.y, self.m, self.d = y, m, d

    def __repr__(self):
        return "SDate(%r,%r,%r)" % (self.y, self.m, self.d)

    year = property(lambda s: s.y)
    month = property(lambda s: s.m)
    day = property(lambda s: s.d)

    def __bool__(self):
        return True

    def __bool_sym__(self):
        return True

    def toordinal(self):
        return ordinal(self.y, self.m, self.d)

    def weekday(self):
        return weekday_of(self.y, self.m, self.d)

    def isoweekday(self):
        return self.weekday() + 1

    def replace(self, year=None, month=None, day=None):
        return mk_date(
            self.y if year is None else year,
            self.m if month is None else month,
            self.d if day is None else day,
        )

    def _key(self):
        return (self.y, self.m, self.d)

    def __eq__(self, o):
        if isinstance(o, SDateTime) or isinstance(o, _dt.datetime):
            return False
        if isinstance(o, (SDate, _dt.date)):
            return _lex_eq(self._key(), _date_key(o))
        return False

    def __ne__(self, o):
        from .core import Not

        return Not(self.__eq__(o))

    def __lt__(self, o):
        return _lex_lt(self._key(), _date_key(o))

    def __le__(self, o):
        return _lex_le(self._key(), _date_key(o))

    def __gt__(self, o):
        return _lex_lt(_date_key(o), self._key())

    def __ge__(self, o):
        return _lex_le(_date_key(o), self._key())

    def __sub__(self, o):
        if isinstance(o, (SDate, _dt.date)) and not isinstance(o, (_dt.datetime, SDateTime)):
            return mk_timedelta((self.toordinal() - _ord_of(o)) * US_DAY)
        if isinstance(o, (_dt.timedelta, STimeDelta)):
            return _date_from_ordinal(self.toordinal() - _td_us(o) // US_DAY)
        return NotImplemented

    def __add__(self, o):
        if isinstance(o, (_dt.timedelta, STimeDelta)):
            return _date_from_ordinal(self.toordinal() + _td_us(o) // US_DAY)
        return NotImplemented

    __radd__ = __add__
    __hash__ = Sym.__hash__


def _as_sreldelta(o):
    """a real dateutil.relativedelta (built from concrete amounts, so the constructor model was not
    consulted) meeting a symbolic datetime: the same relative amounts as an SRelDelta"""
    try:
        from dateutil.relativedelta import relativedelta
    except ImportError:
        return None
    if not isinstance(o, relativedelta):
        return None
    from .instrument import SRelDelta, Unsupported

    if any(getattr(o, k) is not None for k in ("year", "month", "day", "weekday", "hour", "minute",
                                               "second", "microsecond")) or o.leapdays:
        raise Unsupported("relativedelta absolute fields / leapdays")
    return SRelDelta(years=o.years, months=o.months, days=o.days, hours=o.hours, minutes=o.minutes,
                     seconds=o.seconds, microseconds=o.microseconds)


def _date_key(o):
    if isinstance(o, SDate):
        return o._key()
    if isinstance(o, _dt.date) and not isinstance(o, _dt.datetime):
        return (o.year, o.month, o.day)
    raise TypeError("can't compare date to %s" % type(o).__name__)


def _ord_of(o):
    if isinstance(o, (SDate, SDateTime)):
        return o.toordinal()
    return o.toordinal()


def mk_date(y, m, d):
    for n, v in (("year", y), ("month", m), ("day", d)):
        _check_int(n, v)
    if not _anysym(y, m, d):
        return _dt.date(y, m, d)
    _validate_date(y, m, d)
    return SDate(y, m, d)


def _fresh_date_for_ordinal(o):
    """the unique valid (y, m, d) with ordinal o, 1 <= o <= MAXORD (o symbolic)"""
    p = cur()
    y = p.fresh_int("y", 1, 9999)
    m = p.fresh_int("m", 1, 12)
    d = p.fresh_int("d", 1, 31)
    p._add(d.e <= z_dim(y, m))
    p._add(z_ordinal(y, m, d) == _z(o))
    return y, m, d


def _date_from_ordinal(o):
    if isinstance(o, int):
        if not 1 <= o <= MAXORD:
            raise OverflowError("date value out of range")
        return _dt.date.fromordinal(o)
    if not (1 <= o) or not (o <= MAXORD):
        raise OverflowError("date value out of range")
    return SDate(*_fresh_date_for_ordinal(o))


class STime(Sym):
    __slots__ = ("H", "M", "S", "us", "tz")

    def __init__(self, H, M, S, us, tz=None):
        self.H, self.M, self.S, self.us, self.tz = H, M, S, us, tz

    def __repr__(self):
        return "STime(%r,%r,%r,%r)" % (self.H, self.M, self.S, self.us)

    hour = property(lambda s: s.H)
    minute = property(lambda s: s.M)
    second = property(lambda s: s.S)
    microsecond = property(lambda s: s.us)
    tzinfo = property(lambda s: s.tz)

    def __bool__(self):
        return True

    def __bool_sym__(self):
        return True

    def replace(self, hour=None, minute=None, second=None, microsecond=None, tzinfo=True):
        return mk_time(
            self.H if hour is None else hour,
            self.M if minute is None else minute,
            self.S if second is None else second,
            self.us if microsecond is None else microsecond,
            self.tz if tzinfo is True else tzinfo,
        )

    def _key(self):
        return (self.H, self.M, self.S, self.us)

    def __eq__(self, o):
        if isinstance(o, (STime, _dt.time)):
            if (self.tz is None) != (o.tzinfo is None):
                return False
            return _lex_eq(self._key(), _time_key(o))
        return False

    def __ne__(self, o):
        from .core import Not

        return Not(self.__eq__(o))

    __hash__ = Sym.__hash__


def _time_key(o):
    if isinstance(o, STime):
        return o._key()
    return (o.hour, o.minute, o.second, o.microsecond)


def mk_time(H=0, M=0, S=0, us=0, tzinfo=None, fold=0):
    for n, v in (("hour", H), ("minute", M), ("second", S), ("microsecond", us)):
        _check_int(n, v)
    if not _anysym(H, M, S, us):
        return _dt.time(H, M, S, us, tzinfo=tzinfo)
    _validate_time(H, M, S, us)
    return STime(H, M, S, us, tzinfo)


def _lex_lt(a, b):
    """strict lexicographic order of two equally long tuples of ints/SInts as one formula"""
    e = z3.BoolVal(False)
    for x, y in reversed(list(zip(a, b))):
        zx, zy = _z(x), _z(y)
        e = z3.Or(zx < zy, z3.And(zx == zy, e))
    return mk_bool(e)


def _lex_le(a, b):
    e = z3.BoolVal(True)
    for x, y in reversed(list(zip(a, b))):
        zx, zy = _z(x), _z(y)
        e = z3.Or(zx < zy, z3.And(zx == zy, e))
    return mk_bool(e)


def _lex_eq(a, b):
    return mk_bool(z3.And(*[_z(x) == _z(y) for x, y in zip(a, b)]))


class SDateTime(Sym):
    """datetime with at least one symbolic part.  tz is None or a tzinfo object (real or zone-theory).
    Two interchangeable representations, each derived lazily from the other: the seven calendar
    fields, or the wall clock in microseconds since ordinal 0 (the timezone pipeline only ever needs
    the latter, which keeps its obligations linear)."""

    __slots__ = ("_f", "_w", "tz", "fold")

    def __init__(self, y, m, d, H=0, M=0, S=0, us=0, tz=None, fold=0):
        self._f = (y, m, d, H, M, S, us)
        self._w = None
        self.tz = tz
        self.fold = fold

    @classmethod
    def from_wall(cls, wall, tz=None, fold=0):
        o = cls.__new__(cls)
        o._f = None
        o._w = wall
        o.tz = tz
        o.fold = fold
        return o

    def _retz(self, tz, fold=None):
        o = SDateTime.__new__(SDateTime)
        o._f, o._w = self._f, self._w
        o.tz = tz
        o.fold = self.fold if fold is None else fold
        return o

    def fields(self):
        if self._f is None:
            self._f = _fields_from_wall(self._w)
        return self._f

    def __repr__(self):
        if self._f is None:
            return "SDateTime(wall=%r tz=%r)" % (self._w, self.tz)
        return "SDateTime(%r-%r-%r %r:%r:%r.%r tz=%r)" % (self._f + (self.tz,))

    y = property(lambda s: s.fields()[0])
    m = property(lambda s: s.fields()[1])
    d = property(lambda s: s.fields()[2])
    H = property(lambda s: s.fields()[3])
    M = property(lambda s: s.fields()[4])
    S = property(lambda s: s.fields()[5])
    us = property(lambda s: s.fields()[6])
    year = property(lambda s: s.fields()[0])
    month = property(lambda s: s.fields()[1])
    day = property(lambda s: s.fields()[2])
    hour = property(lambda s: s.fields()[3])
    minute = property(lambda s: s.fields()[4])
    second = property(lambda s: s.fields()[5])
    microsecond = property(lambda s: s.fields()[6])
    tzinfo = property(lambda s: s.tz)

    def __bool__(self):
        return True

    def __bool_sym__(self):
        return True

    def date(self):
        if not _anysym(self.y, self.m, self.d):
            return _dt.date(self.y, self.m, self.d)
        return SDate(self.y, self.m, self.d)

    def time(self):
        if not _anysym(self.H, self.M, self.S, self.us):
            return _dt.time(self.H, self.M, self.S, self.us)
        return STime(self.H, self.M, self.S, self.us)

    def timetz(self):
        if not _anysym(self.H, self.M, self.S, self.us):
            return _dt.time(self.H, self.M, self.S, self.us, tzinfo=self.tz)
        return STime(self.H, self.M, self.S, self.us, self.tz)

    def toordinal(self):
        return ordinal(self.y, self.m, self.d)

    def weekday(self):
        return weekday_of(self.y, self.m, self.d)

    def isoweekday(self):
        return self.weekday() + 1

    def replace(self, year=None, month=None, day=None, hour=None, minute=None, second=None,
                microsecond=None, tzinfo=True, *, fold=None):
        if all(v is None for v in (year, month, day, hour, minute, second, microsecond)):
            return self._retz(self.tz if tzinfo is True else tzinfo, fold)
        if self._f is None and all(v is None for v in (year, month, day, hour, minute, second)):
            # only the microsecond changes: stay on the wall-clock representation
            _check_int("microsecond", microsecond)
            if not _rng(0, microsecond, 999999):
                raise ValueError("microsecond must be in 0..999999")
            w = self._w - self._w % 1000000 + microsecond
            return SDateTime.from_wall(w, self.tz if tzinfo is True else tzinfo,
                                       self.fold if fold is None else fold)
        return mk_datetime(
            self.y if year is None else year,
            self.m if month is None else month,
            self.d if day is None else day,
            self.H if hour is None else hour,
            self.M if minute is None else minute,
            self.S if second is None else second,
            self.us if microsecond is None else microsecond,
            self.tz if tzinfo is True else tzinfo,
            fold=self.fold if fold is None else fold,
        )

    # wall clock as microseconds since 0001-01-01 minus one day (ordinal based)
    def wall_us(self):
        if self._w is None:
            self._w = (
                self.toordinal() * US_DAY
                + ((self.H * 60 + self.M) * 60 + self.S) * 1000000
                + self.us
            )
        return self._w

    def utcoffset(self):
        if self.tz is None:
            return None
        from . import zone

        return zone.utcoffset_of(self.tz, self)

    def dst(self):
        raise Unsupported("datetime.dst() on a symbolic datetime")

    def tzname(self):
        raise Unsupported("datetime.tzname() on a symbolic datetime")

    def astimezone(self, tz=None):
        from . import zone

        return zone.astimezone(self, tz)

    def utc_us(self):
        off = self.utcoffset()
        return self.wall_us() - _td_us(off)

    # -- arithmetic --------------------------------------------------------------------------
    def _shift(self, delta_us):
        return shift_datetime(self, delta_us)

    def __add__(self, o):
        if isinstance(o, (_dt.timedelta, STimeDelta)):
            return self._shift(_td_us(o))
        r = _as_sreldelta(o)
        if r is not None:
            return r.__radd__(self)
        return NotImplemented

    __radd__ = __add__

    def __sub__(self, o):
        if isinstance(o, (_dt.timedelta, STimeDelta)):
            return self._shift(-_td_us(o))
        if isinstance(o, (SDateTime, _dt.datetime)):
            return dt_diff(self, o)
        r = _as_sreldelta(o)
        if r is not None:
            return r.__rsub__(self)
        return NotImplemented

    def __rsub__(self, o):
        if isinstance(o, _dt.datetime):
            return dt_diff(o, self)
        return NotImplemented

    # -- comparison --------------------------------------------------------------------------
    def __eq__(self, o):
        if isinstance(o, (SDateTime, _dt.datetime)):
            return dt_cmp(self, o, "eq")
        return False

    def __ne__(self, o):
        from .core import Not

        return Not(self.__eq__(o))

    def __lt__(self, o):
        if isinstance(o, (SDateTime, _dt.datetime)):
            return dt_cmp(self, o, "lt")
        return NotImplemented

    def __le__(self, o):
        if isinstance(o, (SDateTime, _dt.datetime)):
            return dt_cmp(self, o, "le")
        return NotImplemented

    def __gt__(self, o):
        if isinstance(o, (SDateTime, _dt.datetime)):
            return dt_cmp(o, self, "lt")
        return NotImplemented

    def __ge__(self, o):
        if isinstance(o, (SDateTime, _dt.datetime)):
            return dt_cmp(o, self, "le")
        return NotImplemented

    __hash__ = Sym.__hash__


def _fields_from_wall(wall):
    """calendar fields of a wall clock given in microseconds (range already checked)"""
    o = wall // US_DAY
    rem = wall % US_DAY
    if isinstance(o, int):
        nd = _dt.date.fromordinal(o)
        y, m, d = nd.year, nd.month, nd.day
    else:
        y, m, d = _fresh_date_for_ordinal(o)
    us = rem % 1000000
    secs = rem // 1000000
    return (y, m, d, secs // 3600, (secs // 60) % 60, secs % 60, us)


def dt_fields(o):
    if isinstance(o, SDateTime):
        return o.fields()
    return (o.year, o.month, o.day, o.hour, o.minute, o.second, o.microsecond)


def dt_wall_us(o):
    if isinstance(o, SDateTime):
        return o.wall_us()
    return (
        o.toordinal() * US_DAY
        + ((o.hour * 60 + o.minute) * 60 + o.second) * 1000000
        + o.microsecond
    )


def dt_utc_us(o):
    if isinstance(o, SDateTime):
        return o.utc_us()
    from . import zone

    off = zone.utcoffset_of(o.tzinfo, o)
    return dt_wall_us(o) - _td_us(off)


def dt_tz(o):
    return o.tz if isinstance(o, SDateTime) else o.tzinfo


def _aware(o):
    """datetime awareness as CPython defines it: tzinfo set and utcoffset() is not None."""
    tz = dt_tz(o)
    if tz is None:
        return False
    from . import zone

    return zone.gives_offset(tz)


def dt_cmp(a, b, op):
    aa, ab = _aware(a), _aware(b)
    if aa != ab:
        if op == "eq":
            return False
        raise TypeError("can't compare offset-naive and offset-aware datetimes")
    if aa and dt_tz(a) is not dt_tz(b):
        ka, kb = (dt_utc_us(a),), (dt_utc_us(b),)
    elif (isinstance(a, SDateTime) and a._f is None) or (isinstance(b, SDateTime) and b._f is None):
        ka, kb = (dt_wall_us(a),), (dt_wall_us(b),)
    else:
        ka, kb = dt_fields(a), dt_fields(b)
    if op == "eq":
        return _lex_eq(ka, kb)
    if op == "lt":
        return _lex_lt(ka, kb)
    return _lex_le(ka, kb)


def dt_diff(a, b):
    aa, ab = _aware(a), _aware(b)
    if aa != ab:
        raise TypeError("can't subtract offset-naive and offset-aware datetimes")
    if aa and dt_tz(a) is not dt_tz(b):
        return mk_timedelta(dt_utc_us(a) - dt_utc_us(b))
    return mk_timedelta(dt_wall_us(a) - dt_wall_us(b))


def _small_day_shift(y, m, d, k):
    """(y, m, d) + k days for |k| <= 28 in closed form (no fresh variables): stays in the month, or
    moves into the adjacent one.  Raises OverflowError outside 0001-01-01..9999-12-31."""
    from .core import And, Or

    L = dim(y, m)
    d2 = d + k
    over = Or(And(d2 > L, m == 12, y == 9999), And(d2 < 1, m == 1, y == 1))
    if over:
        raise OverflowError("date value out of range")
    if all(isinstance(v, int) for v in (y, m, d, k)):
        nd = _dt.date(y, m, d) + _dt.timedelta(days=k)
        return nd.year, nd.month, nd.day
    zy, zm, zd2, zL = _z(y), _z(m), _z(d2), _z(L)
    nxt_y = z3.If(zm == 12, zy + 1, zy)
    nxt_m = z3.If(zm == 12, 1, zm + 1)
    prv_y = z3.If(zm == 1, zy - 1, zy)
    prv_m = z3.If(zm == 1, 12, zm - 1)
    after = zd2 > zL
    before = zd2 < 1
    ny = z3.If(after, nxt_y, z3.If(before, prv_y, zy))
    nm = z3.If(after, nxt_m, z3.If(before, prv_m, zm))
    nd = z3.If(after, zd2 - zL, z3.If(before, zd2 + z_dim(prv_y, prv_m), zd2))
    return mk_int(z3.simplify(ny)), mk_int(z3.simplify(nm)), mk_int(z3.simplify(nd))


def _bounded(k, lo, hi):
    """is lo <= k <= hi implied by the declared ranges of the variables? (deterministic: the answer
    selects a representation, so it must not depend on solver timing)"""
    if isinstance(k, int):
        return lo <= k <= hi
    from .core import interval

    a, b = interval(z3.simplify(_z(k)), cur().bounds)
    return lo <= a and b <= hi


def _shift_days_fields(y, m, d, k):
    if isinstance(k, int) and k == 0:
        return y, m, d
    if _bounded(k, -28, 28):
        return _small_day_shift(y, m, d, k)
    o = ordinal(y, m, d) + k
    if not _rng(1, o, MAXORD):
        raise OverflowError("date value out of range")
    if isinstance(o, int):
        nd = _dt.date.fromordinal(o)
        return nd.year, nd.month, nd.day
    return _fresh_date_for_ordinal(o)


def shift_days(dt, k):
    """dt + k days (k int or symbolic integer)"""
    y, m, d, H, M, S, us = dt_fields(dt)
    ny, nm, nd_ = _shift_days_fields(y, m, d, k)
    r = _raw_datetime(ny, nm, nd_, H, M, S, us, dt_tz(dt))
    if isinstance(r, SDateTime) and not isinstance(k, int):
        r._w = dt_wall_us(dt) + k * US_DAY  # the same value as ordinal(r)*DAY+..., stated directly
    return r


def shift_datetime(dt, delta_us):
    """dt + delta (microseconds), tzinfo kept, wall-clock arithmetic exactly like CPython"""
    y, m, d, H, M, S, us = dt_fields(dt)
    tz = dt_tz(dt)
    if isinstance(delta_us, int) and delta_us % US_DAY == 0:
        # whole days: the time of day is untouched
        k = delta_us // US_DAY
        if k == 0 and isinstance(dt, SDateTime):
            return dt
        ny, nm, nd_ = _shift_days_fields(y, m, d, k)
        return _raw_datetime(ny, nm, nd_, H, M, S, us, tz)
    tod = ((H * 60 + M) * 60 + S) * 1000000 + us + delta_us
    k = tod // US_DAY
    rem = tod % US_DAY
    if not isinstance(delta_us, int):
        # symbolic shift: stay on the wall-clock representation (fields derived on demand)
        wall = dt_wall_us(dt) + delta_us
        if not _rng(US_DAY, wall, (MAXORD + 1) * US_DAY - 1):
            raise OverflowError("date value out of range")
        return SDateTime.from_wall(wall, tz)
    ny, nm, nd_ = _shift_days_fields(y, m, d, k)
    nus = rem % 1000000
    secs = rem // 1000000
    nS = secs % 60
    nM = (secs // 60) % 60
    nH = secs // 3600
    return _raw_datetime(ny, nm, nd_, nH, nM, nS, nus, tz)


def with_tz(dt, tz):
    """dt.replace(tzinfo=tz) without touching the representation"""
    if isinstance(dt, SDateTime):
        return dt._retz(tz)
    return _raw_datetime(*dt_fields(dt), tz)


def _raw_datetime(y, m, d, H, M, S, us, tz, fold=0):
    from . import zone

    if not _anysym(y, m, d, H, M, S, us) and not isinstance(tz, (zone.SZone, zone.SVariant)) \
            and not _sym_static(tz):
        return _dt.datetime(y, m, d, H, M, S, us, tzinfo=_real_tz(tz), fold=fold)
    return SDateTime(y, m, d, H, M, S, us, tz, fold)


def _sym_static(tz):
    """a StaticTzInfo whose offset is symbolic cannot sit on a real datetime"""
    if tz is None or type(tz).__name__ != "StaticTzInfo":
        return False
    return is_sym(tz.utcoffset(None))


def _real_tz(tz):
    from . import zone

    if isinstance(tz, zone.SZone):
        raise Unsupported("concrete datetime in a symbolic zone")
    return tz


def mk_datetime(year, month=None, day=None, hour=0, minute=0, second=0, microsecond=0,
                tzinfo=None, *, fold=0):
    """datetime(...) with CPython's validation order and messages"""
    if month is None or day is None:
        if isinstance(year, (bytes, str)):
            raise Unsupported("datetime(pickle state)")
        raise TypeError("function missing required argument")
    for n, v in (("year", year), ("month", month), ("day", day), ("hour", hour),
                 ("minute", minute), ("second", second), ("microsecond", microsecond)):
        _check_int(n, v)
    from . import zone

    if not _anysym(year, month, day, hour, minute, second, microsecond) and not isinstance(
        tzinfo, (zone.SZone, zone.SVariant)
    ) and not _sym_static(tzinfo):
        return _dt.datetime(year, month, day, hour, minute, second, microsecond, tzinfo=tzinfo,
                            fold=fold)
    _validate_date(year, month, day)
    _validate_time(hour, minute, second, microsecond)
    return SDateTime(year, month, day, hour, minute, second, microsecond, tzinfo, fold)


def symbolic_datetime(path, name, tz=None, lo_year=1, hi_year=9999, with_time=True):
    """a named, valid, otherwise arbitrary datetime (harness input)"""
    y = path.input_int(name + "_y", lo_year, hi_year)
    m = path.input_int(name + "_m", 1, 12)
    d = path.input_int(name + "_d", 1, 31)
    path._add(d.e <= z_dim(y, m))
    if with_time:
        H = path.input_int(name + "_H", 0, 23)
        M = path.input_int(name + "_M", 0, 59)
        S = path.input_int(name + "_S", 0, 59)
        us = path.input_int(name + "_us", 0, 999999)
    else:
        H = M = S = us = 0
    return SDateTime(y, m, d, H, M, S, us, tz)


def concrete_datetime(model_inputs, name, tz=None):
    g = lambda k, dflt: model_inputs.get(name + "_" + k, dflt)
    return _dt.datetime(g("y", 2000), g("m", 1), g("d", 1), g("H", 0), g("M", 0), g("S", 0),
                        g("us", 0), tzinfo=tz)


# -- clock ------------------------------------------------------------------------------------


def clock_now(tz=None):
    """datetime.now(tz) / today() / utcnow(): a havoc'd valid instant (fresh on every read)"""
    p = cur()
    k = p.fresh_name("clock")
    y = SInt(z3.Int(k + "_y"))
    m = SInt(z3.Int(k + "_m"))
    d = SInt(z3.Int(k + "_d"))
    H = SInt(z3.Int(k + "_H"))
    M = SInt(z3.Int(k + "_M"))
    S = SInt(z3.Int(k + "_S"))
    us = SInt(z3.Int(k + "_us"))
    p._add(z_valid_date(y, m, d))
    p._add(z_valid_time(H, M, S, us))
    for nm, v, rng in (("y", y, (1, 9999)), ("m", m, (1, 12)), ("d", d, (1, 31)), ("H", H, (0, 23)),
                       ("M", M, (0, 59)), ("S", S, (0, 59)), ("us", us, (0, 999999))):
        p.inputs[k + "_" + nm] = v.e
        p.bounds[k + "_" + nm] = rng
    return SDateTime(y, m, d, H, M, S, us, tz)


# -- calendar module ---------------------------------------------------------------------------


def model_calendar_weekday(year, month, day):
    if not _anysym(year, month, day):
        import calendar

        return int(calendar.weekday(year, month, day))
    # CPython: years outside MINYEAR..MAXYEAR are folded into 2000 + year % 400
    if not (1 <= year) or not (year <= 9999):
        year = 2000 + year % 400
    _validate_date(year, month, day)
    return weekday_of(year, month, day)


def model_calendar_monthrange(year, month):
    import calendar

    if not _anysym(year, month):
        a, b = calendar.monthrange(year, month)
        return (int(a), b)
    if not (1 <= month) or not (month <= 12):
        raise calendar.IllegalMonthError(month if isinstance(month, int) else 0)
    return (model_calendar_weekday(year, month, 1), dim(year, month))


def model_calendar_isleap(year):
    return isleap(year)
