"""./check replay <file>: re-run the failing input recorded in a replay file on the real library."""
import json
import sys


def main():
    path = sys.argv[1]
    d = json.load(open(path, encoding="utf-8"))
    spec = d.get("replay_spec")
    print("obligation:", d.get("obligation"))
    if spec:
        from pyvc.driver import load_contract, run_case_concrete

        c = load_contract(spec["module"], spec["contract"])
        res = run_case_concrete(c, spec["case"], spec["values"])
        print(json.dumps(res, indent=1, default=repr, ensure_ascii=False))
        bad = [k for k, v in (res.get("clauses") or {}).items() if v is False]
        print("violated clauses:", bad)
        sys.exit(1 if bad else 0)
    if "failing_input" in d:
        print("stand-in failing input:", json.dumps(d["failing_input"], ensure_ascii=False, indent=1))
        print("(re-run the stand-in: PYTHONPATH=/repo:/verif .venv/bin/python -m standins.%s)"
              % d.get("standin"))
        sys.exit(1)
    print(json.dumps(d, indent=1, ensure_ascii=False)[:4000])
    sys.exit(1)


if __name__ == "__main__":
    main()
