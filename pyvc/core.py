"""pyvc core: symbolic scalars, path exploration by re-execution, solver plumbing.

Design (DESIGN.md section 2, as built): the real dateparser source is executed by CPython after a
mechanical AST instrumentation (pyvc.instrument).  Symbolic values are ordinary Python objects whose
dunder methods build z3 terms; a symbolic truth value that reaches a branch (`__bool__`) asks the
current Path to decide it.  A Path re-executes the code under test once per feasible combination of
decisions (decision-prefix scheme), so every construct of the language keeps CPython's own semantics.

Engine failures derive from BaseException so that the `except Exception` blocks of the code under
analysis can never swallow them.
"""
import itertools
import z3

# --------------------------------------------------------------------------------------------
# engine exceptions (BaseException: must never be caught by the code under analysis)


class EngineError(BaseException):
    """Something the engine cannot do soundly: reported as exit 2 (undecided), never a violation."""


class Unsupported(EngineError):
    pass


class PathInfeasible(BaseException):
    """The current path's assumptions are contradictory: the path is dropped."""


class PathLimit(EngineError):
    pass


# --------------------------------------------------------------------------------------------
# current path (one per worker process at a time)

_CUR = None


def cur():
    if _CUR is None:
        raise EngineError("symbolic value used outside a Path")
    return _CUR


def in_path():
    return _CUR is not None


class Path:
    """One execution of the code under test along a fixed prefix of decisions."""

    def __init__(self, prefix, timeout_ms=20000, seed=0, max_decisions=4000):
        self.prefix = prefix
        self.pos = 0
        self.trace = []  # decisions actually taken (prefix first)
        self.pending = []  # alternative prefixes discovered on this run
        self.solver = z3.Solver()
        self.solver.set("timeout", timeout_ms)
        self.solver_timeout_ms = timeout_ms
        if seed:
            self.solver.set("random_seed", seed & 0x7FFFFFFF)
        self.pc = []
        self.fresh_counter = itertools.count()
        self.queries = 0
        self.solver_time = 0.0
        # per back end: queries answered by the interval evaluator (no solver call), by a fresh
        # non-incremental z3 instance, by the cvc5 binary (asked / decided unsat)
        self.backends = {"interval": 0, "z3_fresh": 0, "cvc5_asked": 0, "cvc5_unsat": 0}
        self.unknowns = 0
        self.max_decisions = max_decisions
        self.notes = []  # free-form events (model divergences etc.)
        self.inputs = {}  # name -> z3 var, registered by the harness for counterexample reporting
        self.assumed = 0
        self.bounds = {}  # z3 const name -> (lo, hi): ranges given when the variable was created
        self.fork_mode = False
        self.is_child = False
        self.child_failures = []

    # -- forking ---------------------------------------------------------------------------
    def _fork(self):
        """Split the process at a two-sided decision: the child explores the True side to the end
        (and exits), then the parent continues with the False side.  Nothing is re-executed."""
        import os
        import sys

        sys.stdout.flush()
        sys.stderr.flush()
        pid = os.fork()
        if pid == 0:
            self.is_child = True
            self.queries = 0
            self.solver_time = 0.0
            self.unknowns = 0
            self.backends = {k: 0 for k in self.backends}
            return True
        _, status = os.waitpid(pid, 0)
        if status != 0:
            self.child_failures.append(status)
        return False

    # -- variables -------------------------------------------------------------------------
    def fresh_name(self, hint):
        return "%s!%d" % (hint, next(self.fresh_counter))

    def fresh_int(self, hint, lo=None, hi=None):
        v = z3.Int(self.fresh_name(hint))
        if lo is not None:
            self._add(v >= lo)
        if hi is not None:
            self._add(v <= hi)
        self.bounds[v.decl().name()] = (lo, hi)
        return SInt(v)

    def fresh_bool(self, hint):
        return SBool(z3.Bool(self.fresh_name(hint)))

    def input_int(self, name, lo=None, hi=None):
        """A named symbolic input (appears in counterexamples)."""
        v = z3.Int(name)
        self.inputs[name] = v
        if lo is not None:
            self._add(v >= lo)
        if hi is not None:
            self._add(v <= hi)
        self.bounds[name] = (lo, hi)
        return SInt(v)

    def input_bool(self, name):
        v = z3.Bool(name)
        self.inputs[name] = v
        return SBool(v)

    # -- constraints -----------------------------------------------------------------------
    def _add(self, c):
        self.pc.append(c)
        self.solver.add(c)

    def _check(self, *extra):
        import time

        t0 = time.time()
        self.queries += 1
        r = self.solver.check(*extra)
        self.solver_time += time.time() - t0
        if r == z3.unknown:
            self.unknowns += 1
        return r

    def assume(self, cond):
        """requires / theory axiom: restrict the path; a contradictory restriction drops the path."""
        cond = tobool_z3(cond)
        c = z3.simplify(cond)
        if z3.is_true(c):
            return
        if z3.is_false(c):
            raise PathInfeasible()
        self._add(c)
        self.assumed += 1
        # replaying a prefix: feasibility was established when the prefix was recorded
        if self.pos < len(self.prefix):
            return
        if self._check() == z3.unsat:
            raise PathInfeasible()

    def decide(self, cond):
        """Truth value of a symbolic condition on this path (forks by recording the alternative)."""
        c = z3.simplify(cond)
        if z3.is_true(c):
            return True
        if z3.is_false(c):
            return False
        # implied by the declared ranges of the variables alone? (deterministic, no solver call,
        # consumes no decision index)
        t = truth_by_intervals(c, self.bounds)
        if t is not None:
            self.backends["interval"] += 1
            return t
        i = self.pos
        self.pos += 1
        if i >= self.max_decisions:
            raise PathLimit("more than %d decisions on one path" % self.max_decisions)
        if i < len(self.prefix):
            b = self.prefix[i]
            self._add(c if b else z3.Not(c))
            self.trace.append(b)
            return b
        rt = self._check(c)
        if rt == z3.unsat:
            b = False  # pc is satisfiable (invariant), so the negation is
        else:
            rf = self._check(z3.Not(c))
            if rf == z3.unsat:
                b = True
            else:
                # both sides feasible (or unknown: explored, which is sound for proving)
                if self.fork_mode:
                    b = self._fork()
                else:
                    b = True
                    self.pending.append(list(self.trace) + [False])
        self._add(c if b else z3.Not(c))
        self.trace.append(b)
        return b

    def concretize(self, e, what="value", limit=64):
        """Enumerate the values of an Int term by forking (used for symbolic list indices)."""
        e = z3.simplify(e)
        if z3.is_int_value(e):
            return e.as_long()
        tried = 0
        while True:
            i = self.pos
            self.pos += 1
            if i < len(self.prefix):
                kind, v = self.prefix[i]  # recorded: solver models are not reproducible, values are
                self.trace.append((kind, v))
                if kind == "eq":
                    self._add(e == v)
                    return v
                self._add(e != v)
            else:
                r = self._check()
                if r == z3.unsat:
                    raise PathInfeasible()
                if r != z3.sat:
                    raise EngineError("concretize(%s): solver gave %s" % (what, r))
                v = self.solver.model().eval(e, model_completion=True).as_long()
                if self.fork_mode:
                    if self._fork():
                        self.trace.append(("eq", v))
                        self._add(e == v)
                        return v
                    self.trace.append(("ne", v))
                    self._add(e != v)
                else:
                    self.pending.append(list(self.trace) + [("ne", v)])
                    self.trace.append(("eq", v))
                    self._add(e == v)
                    return v
            tried += 1
            if tried > limit:
                raise PathLimit("concretize(%s): more than %d values" % (what, limit))

    # -- final checks ----------------------------------------------------------------------
    def prove(self, cond):
        """Is `cond` valid under the path condition?  -> ('unsat'|'sat'|'unknown', model or None)"""
        c = z3.simplify(tobool_z3(cond))
        if z3.is_true(c):
            return "unsat", None
        r = self._check(z3.Not(c))
        if r == z3.unsat:
            return "unsat", None
        if r == z3.sat:
            return "sat", self.solver.model()
        # a fresh, non-incremental z3 instance often decides what the incremental one leaves open
        s2 = z3.Solver()
        s2.set("timeout", int(self.solver_timeout_ms * 2))
        s2.add(self.solver.assertions())
        s2.add(z3.Not(c))
        import time as _t

        t0 = _t.time()
        r1 = s2.check()
        self.solver_time += _t.time() - t0
        self.queries += 1
        self.backends["z3_fresh"] += 1
        if r1 == z3.unsat:
            self.notes.append("fresh z3 instance decided a query the incremental one left open")
            return "unsat", None
        if r1 == z3.sat:
            return "sat", s2.model()
        # second back end for queries z3 leaves open
        self.backends["cvc5_asked"] += 1
        r2 = second_opinion(self.solver, z3.Not(c))
        if r2 == "unsat":
            self.backends["cvc5_unsat"] += 1
            self.notes.append("cvc5 decided a query z3 left open")
            return "unsat", None
        return "unknown", None

    def model_inputs(self, model):
        out = {}
        for k, v in self.inputs.items():
            val = model.eval(v, model_completion=True)
            if z3.is_int_value(val):
                out[k] = val.as_long()
            elif z3.is_true(val) or z3.is_false(val):
                out[k] = z3.is_true(val)
            else:
                out[k] = str(val)
        return out


# --------------------------------------------------------------------------------------------
# interval reasoning over declared variable ranges (sound, incomplete, deterministic)

_NEG, _POS = float("-inf"), float("inf")


def interval(e, bounds, depth=0):
    """(lo, hi) enclosing an Int term, from the declared ranges of its variables"""
    if depth > 60:
        return (_NEG, _POS)
    if z3.is_int_value(e):
        v = e.as_long()
        return (v, v)
    k = e.decl().kind()
    ch = e.children()
    if k == z3.Z3_OP_UNINTERPRETED and not ch:
        lo, hi = bounds.get(e.decl().name(), (None, None))
        return (_NEG if lo is None else lo, _POS if hi is None else hi)
    if k == z3.Z3_OP_ADD:
        lo = hi = 0
        for c in ch:
            a, b = interval(c, bounds, depth + 1)
            lo, hi = lo + a, hi + b
        return (lo, hi)
    if k == z3.Z3_OP_SUB:
        lo, hi = interval(ch[0], bounds, depth + 1)
        for c in ch[1:]:
            a, b = interval(c, bounds, depth + 1)
            lo, hi = lo - b, hi - a
        return (lo, hi)
    if k == z3.Z3_OP_UMINUS:
        a, b = interval(ch[0], bounds, depth + 1)
        return (-b, -a)
    if k == z3.Z3_OP_MUL:
        lo, hi = 1, 1
        for c in ch:
            a, b = interval(c, bounds, depth + 1)
            cands = []
            for x in (lo, hi):
                for y in (a, b):
                    if (x in (_NEG, _POS) and y == 0) or (y in (_NEG, _POS) and x == 0):
                        cands.append(0)
                    else:
                        cands.append(x * y)
            lo, hi = min(cands), max(cands)
        return (lo, hi)
    if k in (z3.Z3_OP_IDIV, z3.Z3_OP_DIV) and z3.is_int_value(ch[1]) and ch[1].as_long() > 0:
        d = ch[1].as_long()
        a, b = interval(ch[0], bounds, depth + 1)
        return (_NEG if a == _NEG else a // d, _POS if b == _POS else b // d)
    if k == z3.Z3_OP_MOD and z3.is_int_value(ch[1]) and ch[1].as_long() > 0:
        d = ch[1].as_long()
        a, b = interval(ch[0], bounds, depth + 1)
        if a != _NEG and b != _POS and a >= 0 and b < d:
            return (a, b)
        return (0, d - 1)
    if k == z3.Z3_OP_ITE:
        t = truth_by_intervals(ch[0], bounds, depth + 1)
        if t is True:
            return interval(ch[1], bounds, depth + 1)
        if t is False:
            return interval(ch[2], bounds, depth + 1)
        a, b = interval(ch[1], bounds, depth + 1)
        c, d = interval(ch[2], bounds, depth + 1)
        return (min(a, c), max(b, d))
    return (_NEG, _POS)


def truth_by_intervals(c, bounds, depth=0):
    """True / False if the Bool term is decided by variable ranges alone, else None"""
    if depth > 60:
        return None
    if z3.is_true(c):
        return True
    if z3.is_false(c):
        return False
    k = c.decl().kind()
    ch = c.children()
    if k == z3.Z3_OP_NOT:
        t = truth_by_intervals(ch[0], bounds, depth + 1)
        return None if t is None else (not t)
    if k == z3.Z3_OP_AND:
        res = True
        for x in ch:
            t = truth_by_intervals(x, bounds, depth + 1)
            if t is False:
                return False
            if t is None:
                res = None
        return res
    if k == z3.Z3_OP_OR:
        res = False
        for x in ch:
            t = truth_by_intervals(x, bounds, depth + 1)
            if t is True:
                return True
            if t is None:
                res = None
        return res
    if k in (z3.Z3_OP_LE, z3.Z3_OP_LT, z3.Z3_OP_GE, z3.Z3_OP_GT, z3.Z3_OP_EQ, z3.Z3_OP_DISTINCT) \
            and len(ch) == 2 and z3.is_int(ch[0]):
        a, b = interval(ch[0], bounds, depth + 1)
        x, y = interval(ch[1], bounds, depth + 1)
        if k == z3.Z3_OP_LE:
            return True if b <= x else (False if a > y else None)
        if k == z3.Z3_OP_LT:
            return True if b < x else (False if a >= y else None)
        if k == z3.Z3_OP_GE:
            return True if a >= y else (False if b < x else None)
        if k == z3.Z3_OP_GT:
            return True if a > y else (False if b <= x else None)
        if k == z3.Z3_OP_EQ:
            if a == b == x == y:
                return True
            return False if (b < x or a > y) else None
        if k == z3.Z3_OP_DISTINCT:
            if a == b == x == y:
                return False
            return True if (b < x or a > y) else None
    return None


def second_opinion(solver, extra, timeout_s=None):
    """ask the cvc5 binary about solver-assertions + extra; returns 'unsat' | 'sat' | 'unknown'.
    Only an `unsat` answer is ever used (a second proof); sat/unknown leave the query open."""
    import os
    import subprocess
    import tempfile

    if os.environ.get("VERIF_NO_CVC5"):
        return "unknown"
    timeout_s = timeout_s or int(os.environ.get("VERIF_CVC5_TIMEOUT", "60"))
    s2 = z3.Solver()
    s2.add(solver.assertions())
    s2.add(extra)
    text = "(set-logic ALL)\n" + s2.to_smt2()
    dump = os.environ.get("VERIF_DUMP_UNKNOWN")
    fd, path = tempfile.mkstemp(suffix=".smt2", dir=dump or None)
    try:
        with os.fdopen(fd, "w") as f:
            f.write(text)
        try:
            r = subprocess.run(["/usr/bin/cvc5", "--tlimit=%d" % (timeout_s * 1000), path],
                               capture_output=True, text=True, timeout=timeout_s + 10)
        except (subprocess.TimeoutExpired, FileNotFoundError):
            return "unknown"
        out = (r.stdout or "").strip().splitlines()
        return out[0] if out and out[0] in ("sat", "unsat") else "unknown"
    finally:
        if not dump:
            try:
                os.unlink(path)
            except OSError:
                pass


def explore(run, prefix_limit=20000, timeout_ms=20000, seed=0, on_path=None, fork=None):
    """Run `run(path)` once per feasible combination of decisions.  `run` returns a JSON-able result.

    Two strategies with the same meaning: fork (default: the process splits at every two-sided
    decision, nothing is executed twice; results come back through an append-only file) and
    re-execution with a decision prefix (VERIF_NOFORK=1; needs no fork, used for debugging).
    Returns (results, stats).  PathInfeasible drops a path; EngineError propagates to the caller.
    """
    import os

    if fork is None:
        fork = not os.environ.get("VERIF_NOFORK")
    if fork:
        return _explore_fork(run, timeout_ms, seed, prefix_limit)
    global _CUR
    work = [[]]
    results = []
    stats = dict(paths=0, dropped=0, queries=0, solver_time=0.0, unknowns=0)
    while work:
        prefix = work.pop()
        p = Path(prefix, timeout_ms=timeout_ms, seed=seed)
        _CUR = p
        try:
            try:
                r = run(p)
                results.append(r)
                stats["paths"] += 1
                if on_path:
                    on_path(p, r)
            except PathInfeasible:
                stats["dropped"] += 1
        finally:
            _CUR = None
            stats["queries"] += p.queries
            stats["solver_time"] += p.solver_time
            stats["unknowns"] += p.unknowns
            for k, v in p.backends.items():
                stats[k] = stats.get(k, 0) + v
        work.extend(p.pending)
        if stats["paths"] + stats["dropped"] > prefix_limit:
            raise PathLimit("more than %d paths" % prefix_limit)
    return results, stats


def _explore_fork(run, timeout_ms, seed, prefix_limit):
    import json
    import os
    import tempfile
    import traceback

    global _CUR
    fd, path = tempfile.mkstemp(prefix="pyvc-paths-", suffix=".jsonl")
    os.close(fd)
    p = Path([], timeout_ms=timeout_ms, seed=seed)
    p.fork_mode = True
    _CUR = p
    rec = None
    try:
        try:
            try:
                r = run(p)
                rec = {"kind": "path", "result": r}
            except PathInfeasible:
                rec = {"kind": "dropped"}
            except EngineError as e:
                tb = traceback.format_exc().strip().splitlines()
                rec = {"kind": "engine-error", "error": "%s: %s" % (type(e).__name__, e),
                       "where": " | ".join(l.strip() for l in tb[-8:-1] if "File" in l)[-400:]}
            except Exception as e:
                tb = traceback.format_exc().strip().splitlines()
                rec = {"kind": "harness-error", "error": "%s: %s" % (type(e).__name__, e),
                       "where": " | ".join(l.strip() for l in tb[-8:-1] if "File" in l)[-400:]}
            rec["queries"] = p.queries
            rec["solver_time"] = p.solver_time
            rec["unknowns"] = p.unknowns
            rec["backends"] = p.backends
            rec["child_failures"] = len(p.child_failures)
            with open(path, "a", encoding="utf-8") as f:
                f.write(json.dumps(rec, default=repr) + "\n")
        finally:
            if p.is_child:
                os._exit(0)  # a child never returns into the caller
    except BaseException:
        if p.is_child:
            os._exit(3)
        raise
    finally:
        _CUR = None
    results = []
    stats = dict(paths=0, dropped=0, queries=0, solver_time=0.0, unknowns=0)
    errors = []
    crashed = 0
    try:
        with open(path, encoding="utf-8") as f:
            for line in f:
                d = json.loads(line)
                stats["queries"] += d.get("queries", 0)
                stats["solver_time"] += d.get("solver_time", 0.0)
                stats["unknowns"] += d.get("unknowns", 0)
                for k, v in (d.get("backends") or {}).items():
                    stats[k] = stats.get(k, 0) + v
                crashed += d.get("child_failures", 0)
                if d["kind"] == "path":
                    results.append(d["result"])
                    stats["paths"] += 1
                elif d["kind"] == "dropped":
                    stats["dropped"] += 1
                else:
                    errors.append(d)
    finally:
        os.unlink(path)
    if crashed:
        raise EngineError("%d forked path process(es) died" % crashed)
    if errors:
        e = errors[0]
        cls = HarnessError if e["kind"] == "harness-error" else EngineError
        raise cls("%s @ %s (%d path(s))" % (e["error"], e["where"], len(errors)))
    return results, stats


class HarnessError(Exception):
    pass


# --------------------------------------------------------------------------------------------
# symbolic scalars


class Sym:
    """Base of all symbolic values.  Anything not implemented explicitly is an engine error
    (never a TypeError that the code under analysis might catch)."""

    def _unsup(self, what):
        raise Unsupported("%s on %s" % (what, type(self).__name__))

    def __hash__(self):
        self._unsup("hash")

    def __str__(self):
        self._unsup("str()")

    def __format__(self, spec):
        self._unsup("format()")

    def __iter__(self):
        self._unsup("iter()")

    def __len__(self):
        self._unsup("len()")

    def __int__(self):
        self._unsup("int()")

    def __float__(self):
        self._unsup("float()")

    def __index__(self):
        self._unsup("index()")

    def __getitem__(self, k):
        self._unsup("subscript")

    def __contains__(self, k):
        self._unsup("in")

    def __bool__(self):
        self._unsup("truth value")

    def __getattr__(self, name):
        # only reached when normal lookup fails
        if name.startswith("__") and name.endswith("__"):
            raise AttributeError(name)
        raise Unsupported("attribute .%s on %s" % (name, type(self).__name__))


def _binop_unsup(name):
    def f(self, other):
        raise Unsupported("%s on %s and %s" % (name, type(self).__name__, type(other).__name__))

    return f


for _n in (
    "add radd sub rsub mul rmul truediv rtruediv floordiv rfloordiv mod rmod pow rpow "
    "lshift rshift and rand or ror xor rxor matmul lt le gt ge"
).split():
    setattr(Sym, "__%s__" % _n, _binop_unsup(_n))
for _n in ("neg", "pos", "abs", "invert"):
    setattr(Sym, "__%s__" % _n, (lambda n: lambda self: self._unsup(n))(_n))


def is_sym(x):
    return isinstance(x, Sym)


def toint_z3(x):
    if isinstance(x, SInt):
        return x.e
    if isinstance(x, bool):
        return z3.IntVal(int(x))
    if isinstance(x, int):
        return z3.IntVal(x)
    if isinstance(x, SBool):
        return z3.If(x.e, 1, 0)
    if isinstance(x, float) and x == int(x):
        return z3.IntVal(int(x))
    if isinstance(x, z3.ArithRef):
        return x
    raise Unsupported("integer expected, got %s" % type(x).__name__)


def tobool_z3(x):
    if isinstance(x, SBool):
        return x.e
    if isinstance(x, bool):
        return z3.BoolVal(x)
    if isinstance(x, SInt):
        return x.e != 0
    if isinstance(x, z3.BoolRef):
        return x
    if x is None:
        return z3.BoolVal(False)
    if isinstance(x, Sym):
        return tobool_z3(x.__bool_sym__())
    return z3.BoolVal(bool(x))


def mk_int(e):
    # no simplification here (the z3 Python API makes it the dominant cost); decide()/prove() simplify
    if z3.is_int_value(e):
        return e.as_long()
    return SInt(e)


def mk_bool(e):
    if z3.is_true(e):
        return True
    if z3.is_false(e):
        return False
    return SBool(e)


def _num_ok(x):
    return isinstance(x, (int, SInt, SBool)) or (isinstance(x, float) and x == int(x))


class SBool(Sym):
    __slots__ = ("e",)

    def __init__(self, e):
        self.e = e

    def __bool__(self):
        return cur().decide(self.e)

    def __repr__(self):
        return "SBool(%s)" % self.e

    def __eq__(self, o):
        if isinstance(o, (bool, SBool)):
            return mk_bool(self.e == tobool_z3(o))
        if _num_ok(o):
            return mk_bool(toint_z3(self) == toint_z3(o))
        return False

    def __ne__(self, o):
        r = self.__eq__(o)
        return Not(r)

    __hash__ = Sym.__hash__

    def __int__(self):
        return int(bool(self))

    def __index__(self):
        return int(bool(self))


class SInt(Sym):
    __slots__ = ("e", "src")

    def __init__(self, e, src=None):
        self.e = e
        self.src = src  # the digit items this integer was read from by int(), if any

    def __repr__(self):
        return "SInt(%s)" % self.e

    def __bool__(self):
        return cur().decide(self.e != 0)

    def __bool_sym__(self):
        return mk_bool(self.e != 0)

    def __index__(self):
        return cur().concretize(self.e, "index")

    def __int__(self):
        # int(x) on a symbolic integer must stay symbolic: handled by the call hook; reaching here
        # means a native C function asked for a machine integer
        return cur().concretize(self.e, "int")

    # arithmetic (mathematical integers = Python ints)
    def __add__(self, o):
        if not _num_ok(o):
            return NotImplemented
        return mk_int(self.e + toint_z3(o))

    __radd__ = __add__

    def __sub__(self, o):
        if not _num_ok(o):
            return NotImplemented
        return mk_int(self.e - toint_z3(o))

    def __rsub__(self, o):
        if not _num_ok(o):
            return NotImplemented
        return mk_int(toint_z3(o) - self.e)

    def __mul__(self, o):
        if not _num_ok(o):
            return NotImplemented
        return mk_int(self.e * toint_z3(o))

    __rmul__ = __mul__

    def __neg__(self):
        return mk_int(-self.e)

    def __pos__(self):
        return self

    def __abs__(self):
        return mk_int(z3.If(self.e >= 0, self.e, -self.e))

    def __floordiv__(self, o):
        # Python floor division == z3 div for a positive divisor
        if isinstance(o, int) and not isinstance(o, bool) and o > 0:
            return mk_int(self.e / o)
        raise Unsupported("// by a non-positive or symbolic divisor")

    def __mod__(self, o):
        if isinstance(o, int) and not isinstance(o, bool) and o > 0:
            return mk_int(self.e % o)
        raise Unsupported("% by a non-positive or symbolic divisor")

    def __truediv__(self, o):
        raise Unsupported("true division on symbolic integers (floats are not modelled)")

    def _cmp(self, o, op):
        if not _num_ok(o):
            return NotImplemented
        return mk_bool(op(self.e, toint_z3(o)))

    def __lt__(self, o):
        return self._cmp(o, lambda a, b: a < b)

    def __le__(self, o):
        return self._cmp(o, lambda a, b: a <= b)

    def __gt__(self, o):
        return self._cmp(o, lambda a, b: a > b)

    def __ge__(self, o):
        return self._cmp(o, lambda a, b: a >= b)

    def __eq__(self, o):
        if not _num_ok(o):
            return False
        return mk_bool(self.e == toint_z3(o))

    def __ne__(self, o):
        if not _num_ok(o):
            return True
        return mk_bool(self.e != toint_z3(o))

    __hash__ = Sym.__hash__


# --------------------------------------------------------------------------------------------
# dual-use logical connectives (contracts use these so that a clause is one formula, not a fork)


def And(*xs):
    if all(isinstance(x, bool) for x in xs):
        return all(xs)
    return mk_bool(z3.And(*[tobool_z3(x) for x in xs]))


def Or(*xs):
    if all(isinstance(x, bool) for x in xs):
        return any(xs)
    return mk_bool(z3.Or(*[tobool_z3(x) for x in xs]))


def Not(x):
    if isinstance(x, bool):
        return not x
    return mk_bool(z3.Not(tobool_z3(x)))


def Implies(a, b):
    if isinstance(a, bool) and isinstance(b, bool):
        return (not a) or b
    return mk_bool(z3.Implies(tobool_z3(a), tobool_z3(b)))


def Ite(c, a, b):
    if isinstance(c, bool):
        return a if c else b
    if _num_ok(a) and _num_ok(b):
        return mk_int(z3.If(tobool_z3(c), toint_z3(a), toint_z3(b)))
    return a if c else b  # forks


def Eq(a, b):
    r = a == b
    return r


def truth(x):
    """Python truthiness as bool-or-SBool without forking."""
    if isinstance(x, (bool, SBool)):
        return x
    if isinstance(x, SInt):
        return mk_bool(x.e != 0)
    if isinstance(x, Sym) and hasattr(x, "__bool_sym__"):
        return x.__bool_sym__()
    return bool(x)
