"""Skeleton strings: concrete length and layout, ASCII digit positions may hold symbolic digits.

An item is either a 1-character str or an SInt constrained to 0..9 (a symbolic ASCII digit).
Every operation is exact for the ASCII-digit reading; anything whose result would depend on a symbolic
digit in a way not expressible here raises Unsupported (an engine error, never a Python exception).
"""
import z3

from .core import SBool, SInt, Sym, Unsupported, cur, mk_bool, mk_int, toint_z3

DIGITS = "0123456789"


def _norm_item(it):
    if isinstance(it, str):
        return it
    if isinstance(it, int):
        return DIGITS[it]
    if isinstance(it, SInt):
        e = z3.simplify(it.e)
        if z3.is_int_value(e):
            return DIGITS[e.as_long()]
        return it
    raise Unsupported("bad skeleton item %r" % (it,))


def mk_str(items):
    items = tuple(_norm_item(i) for i in items)
    if all(isinstance(i, str) for i in items):
        return "".join(items)
    return SStr(items)


def items_of(x):
    if isinstance(x, SStr):
        return x.items
    if isinstance(x, str):
        return tuple(x)
    raise Unsupported("string expected, got %s" % type(x).__name__)


def _has_digit(s):
    return any(c in DIGITS for c in s)


def _item_eq(a, b):
    """equality of two items as bool or z3 BoolRef"""
    if isinstance(a, str) and isinstance(b, str):
        return a == b
    if isinstance(a, str):
        a, b = b, a
    # a symbolic
    if isinstance(b, str):
        if b in DIGITS:
            return a.e == int(b)
        return False
    return a.e == b.e


def seq_eq(xs, ys):
    if len(xs) != len(ys):
        return False
    cs = []
    for a, b in zip(xs, ys):
        r = _item_eq(a, b)
        if r is False:
            return False
        if r is not True:
            cs.append(r)
    if not cs:
        return True
    return mk_bool(z3.And(*cs))


def _is_ws(it):
    return isinstance(it, str) and it.isspace()


class SStr(Sym):
    __slots__ = ("items",)

    def __init__(self, items):
        self.items = tuple(items)

    def __repr__(self):
        return "SStr(%s)" % "".join(i if isinstance(i, str) else "<%s>" % i.e for i in self.items)

    def placeholder(self, ch="0"):
        return "".join(i if isinstance(i, str) else ch for i in self.items)

    # -- sequence protocol -----------------------------------------------------------------
    def __len__(self):
        return len(self.items)

    def __bool__(self):
        return len(self.items) > 0

    def __bool_sym__(self):
        return len(self.items) > 0

    def __getitem__(self, k):
        if isinstance(k, slice):
            return mk_str(self.items[k])
        if isinstance(k, SInt):
            k = k.__index__()
        return mk_str((self.items[k],))

    def __iter__(self):
        for it in self.items:
            yield mk_str((it,))

    def __add__(self, o):
        if isinstance(o, (str, SStr)):
            return mk_str(self.items + items_of(o))
        return NotImplemented

    def __radd__(self, o):
        if isinstance(o, (str, SStr)):
            return mk_str(items_of(o) + self.items)
        return NotImplemented

    def __mul__(self, n):
        if isinstance(n, int):
            return mk_str(self.items * n)
        return NotImplemented

    __rmul__ = __mul__

    def __eq__(self, o):
        if isinstance(o, (str, SStr)):
            return seq_eq(self.items, items_of(o))
        return False

    def __ne__(self, o):
        r = self.__eq__(o)
        if isinstance(r, bool):
            return not r
        return mk_bool(z3.Not(r.e))

    __hash__ = Sym.__hash__

    def __contains__(self, needle):
        return contains(self, needle)

    # -- classification --------------------------------------------------------------------
    def _all(self, pred_char, digit_value):
        if not self.items:
            return False
        for it in self.items:
            if isinstance(it, str):
                if not pred_char(it):
                    return False
            elif not digit_value:
                return False
        return True

    def isdigit(self):
        return self._all(str.isdigit, True)

    def isdecimal(self):
        return self._all(str.isdecimal, True)

    def isnumeric(self):
        return self._all(str.isnumeric, True)

    def isalnum(self):
        return self._all(str.isalnum, True)

    def isalpha(self):
        return self._all(str.isalpha, False)

    def isspace(self):
        return self._all(str.isspace, False)

    def isascii(self):
        return all(isinstance(i, SInt) or i.isascii() for i in self.items)

    # -- case ------------------------------------------------------------------------------
    def _map(self, f):
        out = []
        for it in self.items:
            if isinstance(it, str):
                out.extend(f(it))
            else:
                out.append(it)
        return mk_str(out)

    def lower(self):
        return self._map(str.lower)

    def upper(self):
        return self._map(str.upper)

    def casefold(self):
        return self._map(str.casefold)

    def title(self):
        # digits are uncased and break words, exactly like any other uncased character
        ph = self.placeholder("0").title()
        if len(ph) != len(self.items):
            raise Unsupported("title() changes length")
        return mk_str(c if isinstance(i, str) else i for c, i in zip(ph, self.items))

    # -- stripping -------------------------------------------------------------------------
    def _strip(self, chars, left, right):
        if chars is None:
            pred = _is_ws
        else:
            if isinstance(chars, SStr):
                raise Unsupported("strip(symbolic chars)")
            if _has_digit(chars):
                raise Unsupported("strip() with digit characters on a skeleton string")
            pred = lambda it: isinstance(it, str) and it in chars
        a, b = 0, len(self.items)
        if left:
            while a < b and pred(self.items[a]):
                a += 1
        if right:
            while b > a and pred(self.items[b - 1]):
                b -= 1
        return mk_str(self.items[a:b])

    def strip(self, chars=None):
        return self._strip(chars, True, True)

    def lstrip(self, chars=None):
        return self._strip(chars, True, False)

    def rstrip(self, chars=None):
        return self._strip(chars, False, True)

    # -- searching -------------------------------------------------------------------------
    def find(self, sub, start=0, end=None):
        n = len(self.items)
        end = n if end is None else end
        m = len(sub)
        subi = items_of(sub)
        for i in range(start, max(start, end - m) + 1):
            if i + m > end:
                break
            r = seq_eq(self.items[i : i + m], subi)
            if r is True or (r is not False and bool(r)):
                return i
        return -1

    def index(self, sub, start=0, end=None):
        r = self.find(sub, start, end)
        if r < 0:
            raise ValueError("substring not found")
        return r

    def rfind(self, sub, start=0, end=None):
        n = len(self.items)
        end = n if end is None else end
        m = len(sub)
        subi = items_of(sub)
        for i in range(end - m, start - 1, -1):
            r = seq_eq(self.items[i : i + m], subi)
            if r is True or (r is not False and bool(r)):
                return i
        return -1

    def count(self, sub):
        subi = items_of(sub)
        m = len(subi)
        if m == 0:
            return len(self.items) + 1
        i = c = 0
        while i + m <= len(self.items):
            r = seq_eq(self.items[i : i + m], subi)
            if r is True or (r is not False and bool(r)):
                c += 1
                i += m
            else:
                i += 1
        return c

    def startswith(self, prefix, start=0):
        if isinstance(prefix, tuple):
            for p in prefix:
                if self.startswith(p, start):
                    return True
            return False
        pi = items_of(prefix)
        return seq_eq(self.items[start : start + len(pi)], pi)

    def endswith(self, suffix):
        if isinstance(suffix, tuple):
            for p in suffix:
                if self.endswith(p):
                    return True
            return False
        si = items_of(suffix)
        if len(si) > len(self.items):
            return False
        return seq_eq(self.items[len(self.items) - len(si) :], si)

    # -- rewriting -------------------------------------------------------------------------
    def replace(self, old, new, count=-1):
        oi = items_of(old)
        ni = items_of(new)
        if not oi:
            raise Unsupported("replace('') on a skeleton string")
        out = []
        i = 0
        n = len(self.items)
        done = 0
        while i < n:
            if (count < 0 or done < count) and i + len(oi) <= n:
                r = seq_eq(self.items[i : i + len(oi)], oi)
                if r is True or (r is not False and bool(r)):
                    out.extend(ni)
                    i += len(oi)
                    done += 1
                    continue
            out.append(self.items[i])
            i += 1
        return mk_str(out)

    def split(self, sep=None, maxsplit=-1):
        if sep is None:
            out, curr, n = [], [], 0
            items = list(self.items)
            i = 0
            while i < len(items):
                it = items[i]
                if _is_ws(it):
                    if curr:
                        out.append(mk_str(curr))
                        curr = []
                        n += 1
                        if maxsplit >= 0 and n >= maxsplit:
                            rest = items[i:]
                            while rest and _is_ws(rest[0]):
                                rest = rest[1:]
                            if rest:
                                out.append(mk_str(rest))
                            return out
                else:
                    curr.append(it)
                i += 1
            if curr:
                out.append(mk_str(curr))
            return out
        si = items_of(sep)
        if not si:
            raise ValueError("empty separator")
        out, curr = [], []
        i = 0
        n = 0
        while i < len(self.items):
            if (maxsplit < 0 or n < maxsplit) and i + len(si) <= len(self.items):
                r = seq_eq(self.items[i : i + len(si)], si)
                if r is True or (r is not False and bool(r)):
                    out.append(mk_str(curr))
                    curr = []
                    i += len(si)
                    n += 1
                    continue
            curr.append(self.items[i])
            i += 1
        out.append(mk_str(curr))
        return out

    def zfill(self, width):
        if len(self.items) >= width:
            return self
        first = self.items[0] if self.items else ""
        if first in ("+", "-"):
            return mk_str((first,) + ("0",) * (width - len(self.items)) + self.items[1:])
        return mk_str(("0",) * (width - len(self.items)) + self.items)

    def join(self, parts):
        return sym_join(self, parts)

    def format(self, *a, **k):
        raise Unsupported("format() on a skeleton string")

    def encode(self, *a, **k):
        raise Unsupported("encode() on a skeleton string")

    def __mod__(self, args):
        return sym_percent(self, args)


def contains(hay, needle):
    """`needle in hay` for strings (either may be a skeleton)."""
    hi, ni = items_of(hay), items_of(needle)
    m = len(ni)
    if m == 0:
        return True
    cs = []
    for i in range(0, len(hi) - m + 1):
        r = seq_eq(hi[i : i + m], ni)
        if r is True:
            return True
        if r is not False:
            cs.append(r.e)
    if not cs:
        return False
    return mk_bool(z3.Or(*cs))


def sym_join(sep, parts):
    parts = list(parts)
    out = []
    si = items_of(sep)
    for k, p in enumerate(parts):
        if k:
            out.extend(si)
        out.extend(items_of(p))
    return mk_str(out)


def sym_percent(fmt, args):
    """`fmt % args` restricted to %s / %d / %% with skeleton or concrete arguments."""
    if not isinstance(args, tuple):
        args = (args,)
    fi = items_of(fmt)
    out = []
    ai = 0
    i = 0
    while i < len(fi):
        c = fi[i]
        if c == "%":
            if i + 1 >= len(fi):
                raise ValueError("incomplete format")
            d = fi[i + 1]
            if d == "%":
                out.append("%")
            elif d in ("s", "d", "r"):
                if ai >= len(args):
                    raise TypeError("not enough arguments for format string")
                a = args[ai]
                ai += 1
                if isinstance(a, SStr):
                    if d == "d":
                        raise Unsupported("%d of a skeleton string")
                    if d == "r":
                        out.append("'")
                    out.extend(a.items)
                    if d == "r":
                        out.append("'")
                elif isinstance(a, Sym):
                    raise Unsupported("%%%s of %s" % (d, type(a).__name__))
                else:
                    out.extend(("%" + d) % (a,))
            else:
                raise Unsupported("format directive %%%s with symbolic arguments" % d)
            i += 2
            continue
        out.append(c)
        i += 1
    if ai != len(args):
        raise TypeError("not all arguments converted during string formatting")
    return mk_str(out)


def sym_int(x, base=10):
    """int(x) for skeleton strings (ASCII digits, optional sign, surrounding white space)."""
    if isinstance(x, SInt):
        return x
    if isinstance(x, SBool):
        return mk_int(toint_z3(x))
    if not isinstance(x, SStr):
        return int(x, base) if isinstance(x, str) and base != 10 else int(x)
    if base != 10:
        raise Unsupported("int(skeleton, base=%r)" % base)
    items = list(x.strip().items)
    sign = 1
    if items and items[0] in ("+", "-"):
        sign = -1 if items[0] == "-" else 1
        items = items[1:]
    if not items:
        raise ValueError("invalid literal for int() with base 10: %r" % x.placeholder("#"))
    e = z3.IntVal(0)
    pure = True
    for it in items:
        if isinstance(it, str):
            if it == "_":
                raise Unsupported("int() of a skeleton containing '_'")
            if not it.isdecimal():
                raise ValueError("invalid literal for int() with base 10: %r" % x.placeholder("#"))
            import unicodedata

            e = e * 10 + unicodedata.decimal(it)
            pure = pure and it in DIGITS
        else:
            e = e * 10 + it.e
    r = mk_int(sign * e)
    if isinstance(r, SInt) and sign == 1 and pure and len(items) == len(x.items):
        r.src = tuple(items)  # lets str(int(s)).zfill(len(s)) return s without a case split
    return r


class SStringIO:
    """io.StringIO(skeleton) — only what tokenizer uses: read(n)."""

    def __init__(self, s):
        self._items = items_of(s)
        self._pos = 0

    def read(self, n=-1):
        if n is None or n < 0:
            r = self._items[self._pos :]
            self._pos = len(self._items)
        else:
            r = self._items[self._pos : self._pos + n]
            self._pos += len(r)
        return mk_str(r)


def digit(path, name):
    return path.input_int(name, 0, 9)


def skeleton(path, layout, prefix="d"):
    """Build a skeleton from a layout string: every '#' becomes a fresh named symbolic digit."""
    items = []
    k = 0
    for ch in layout:
        if ch == "#":
            items.append(digit(path, "%s%d" % (prefix, k)))
            k += 1
        else:
            items.append(ch)
    return mk_str(items)


def concretize_layout(layout, model_inputs, prefix="d"):
    out = []
    k = 0
    for ch in layout:
        if ch == "#":
            out.append(str(model_inputs.get("%s%d" % (prefix, k), 0)))
            k += 1
        else:
            out.append(ch)
    return "".join(out)
