"""Obligation driver: contracts -> cases -> paths -> SMT verdicts -> replay -> evidence.

A contract (see contracts/*.py) names a real function and provides
    cases()                     finite case split (concrete enumerated parameters)
    setup(inp, case)            builds the call: returns (callable, args, kwargs, ghost); uses `inp`
                                for symbolic inputs and inp.assume(...) for `requires`
    post(case, ghost, out)      dict clause-name -> condition (bool or symbolic) over the outcome
The same setup/post run in two modes: symbolic (instrumented code, inputs are z3 terms) and concrete
(replay: real uninstrumented code in a fresh interpreter, inputs are the solver's model).
"""
import importlib
import json
import os
import subprocess
import sys
import time
import traceback

VERIF = os.path.dirname(os.path.dirname(os.path.abspath(__file__)))
REPO = os.environ.get("VERIF_REPO", "/repo")


class Outcome:
    def __init__(self, value=None, exc=None):
        self.value = value
        self.exc = exc

    @property
    def ok(self):
        return self.exc is None

    def raised(self, *classes):
        return self.exc is not None and isinstance(self.exc, classes)

    def describe(self):
        if self.exc is not None:
            return "raise %s%r" % (type(self.exc).__name__, _safe_args(self.exc))
        return "return %r" % (self.value,)


def _safe_args(e):
    try:
        return tuple(repr(a)[:120] for a in e.args)
    except BaseException:
        return ("<unprintable>",)


class SymInputs:
    """symbolic input source (needs a Path)"""

    symbolic = True

    def __init__(self, path):
        self.path = path

    def int(self, name, lo=None, hi=None):
        return self.path.input_int(name, lo, hi)

    def bool(self, name):
        return self.path.input_bool(name)

    def digits(self, layout, prefix="d"):
        from . import sstr

        return sstr.skeleton(self.path, layout, prefix)

    def datetime(self, name, tz=None, lo_year=1, hi_year=9999, with_time=True):
        from . import cal

        return cal.symbolic_datetime(self.path, name, tz, lo_year, hi_year, with_time)

    def assume(self, cond):
        self.path.assume(cond)


class Rejected(Exception):
    """concrete inputs do not satisfy the contract's requires"""


class ConcInputs:
    """concrete input source: values come from a solver model (replay) or a sampler (differential)"""

    symbolic = False

    def __init__(self, values, default=None):
        self.values = values
        self.default = default

    def _get(self, name, lo, hi):
        if name in self.values:
            return self.values[name]
        if self.default is not None:
            return self.default(name, lo, hi)
        return lo if lo is not None else 0

    def int(self, name, lo=None, hi=None):
        v = int(self._get(name, lo, hi))
        if (lo is not None and v < lo) or (hi is not None and v > hi):
            raise Rejected("%s=%r outside [%r,%r]" % (name, v, lo, hi))
        return v

    def bool(self, name):
        return bool(self._get(name, 0, 1))

    def digits(self, layout, prefix="d"):
        out = []
        k = 0
        for ch in layout:
            if ch == "#":
                out.append(str(self.int("%s%d" % (prefix, k), 0, 9)))
                k += 1
            else:
                out.append(ch)
        return "".join(out)

    def datetime(self, name, tz=None, lo_year=1, hi_year=9999, with_time=True):
        import datetime

        y = self.int(name + "_y", lo_year, hi_year)
        m = self.int(name + "_m", 1, 12)
        d = self.int(name + "_d", 1, 31)
        try:
            if with_time:
                return datetime.datetime(
                    y, m, d,
                    self.int(name + "_H", 0, 23), self.int(name + "_M", 0, 59),
                    self.int(name + "_S", 0, 59), self.int(name + "_us", 0, 999999), tzinfo=tz)
            return datetime.datetime(y, m, d, tzinfo=tz)
        except ValueError as e:
            raise Rejected(str(e))

    def assume(self, cond):
        if not cond:
            raise Rejected("requires not met")


def load_contract(modname, cname):
    mod = importlib.import_module(modname)
    return getattr(mod, cname)


def run_case_symbolic(contract, case, timeout_ms=20000, seed=0, max_models=3):
    """all paths of one (contract, case); returns a JSON-able result"""
    from .core import EngineError, HarnessError, explore

    t0 = time.time()

    def run(p):
        inp = SymInputs(p)
        f, args, kwargs, ghost = contract.setup(inp, case)
        try:
            out = Outcome(value=f(*args, **kwargs))
        except Exception as e:  # the code under contract raised: an outcome, not an engine error
            out = Outcome(exc=e)
        # vacuity canary (`ensures False` must be refuted) once per case, on the root path
        canary = (p.prove(False)[0] != "unsat") if not p.is_child else None
        conds = contract.post(case, ghost, out)
        verdicts = {}
        fails = []
        for name, cond in conds.items():
            verdict, model = p.prove(cond)
            verdicts[name] = verdict
            if verdict == "sat":
                fails.append({"clause": name, "model": p.model_inputs(model),
                              "outcome": out.describe()[:300], "decisions": len(p.trace)})
        return {"verdicts": verdicts, "fails": fails, "sample": out.describe()[:200],
                "canary": canary, "notes": p.notes[:3]}

    err = None
    stats = {}
    paths = []
    try:
        paths, stats = explore(run, timeout_ms=timeout_ms, seed=seed)
    except EngineError as e:
        err = "%s: %s" % (type(e).__name__, e)
        if "@" not in err:
            tb = traceback.format_exc().strip().splitlines()
            err += " @ " + " | ".join(l.strip() for l in tb[-8:-1] if "File" in l)[-400:]
    except HarnessError as e:
        err = "HARNESS %s" % e
    except Exception as e:  # contract / harness bug
        err = "HARNESS %s: %s" % (type(e).__name__, e)
        err += " @ " + " | ".join(
            l.strip() for l in traceback.format_exc().strip().splitlines()[-8:-1] if "File" in l)[-400:]
    clauses = {}
    failures = []
    undecided = []
    samples = []
    canary_ok = None
    notes = []
    for pr in paths:
        if pr.get("canary") is not None:
            canary_ok = pr["canary"]
        for name, verdict in pr["verdicts"].items():
            st = clauses.setdefault(name, {"paths": 0, "unsat": 0, "sat": 0, "unknown": 0})
            st["paths"] += 1
            st[verdict] += 1
            if verdict == "unknown":
                undecided.append({"clause": name})
        for f_ in pr["fails"]:
            if len([x for x in failures if x["clause"] == f_["clause"]]) < max_models:
                failures.append(f_)
        if len(samples) < 2:
            samples.append(pr["sample"])
        notes.extend(pr.get("notes") or [])
    if paths and canary_ok is None:
        canary_ok = True
    return {
        "case": case,
        "clauses": clauses,
        "failures": failures,
        "undecided": undecided,
        "error": err,
        "canary_ok": canary_ok,
        "stats": stats,
        "samples": samples,
        "notes": notes[:5],
        "wall_s": round(time.time() - t0, 3),
    }


# -- replay (real, uninstrumented code in a fresh interpreter) -------------------------------------


def run_case_concrete(contract, case, values):
    """called inside the replay subprocess: real dateparser, concrete inputs"""
    inp = ConcInputs(values)
    try:
        f, args, kwargs, ghost = contract.setup(inp, case)
    except Rejected as e:
        return {"rejected": str(e)}
    try:
        out = Outcome(value=f(*args, **kwargs))
    except Exception as e:
        out = Outcome(exc=e)
    try:
        conds = contract.post(case, ghost, out)
    except Rejected as e:
        # the specification itself is undefined for this sample (e.g. the expected wall clock falls
        # into a repeated or skipped hour of a real zone: outside the property's quantifier)
        return {"rejected": str(e)}
    res = {}
    for k, v in conds.items():
        res[k] = bool(v)
    return {"clauses": res, "outcome": out.describe()[:500],
            "call": "%s(*%r, **%r)" % (getattr(f, "__qualname__", f), _short(args), _short(kwargs))}


def _short(x):
    try:
        return repr(x)[:400]
    except BaseException:
        return "<unprintable>"


def bounded_subprocess(modname, cname, case, samples, seed=0, timeout=600):
    return replay_subprocess(modname, cname, case, None, timeout=timeout,
                             extra={"mode": "bounded", "samples": samples, "seed": seed})


def batch_subprocess(modname, cname, cases, samples, seed=0, timeout=1800):
    return replay_subprocess(modname, cname, None, None, timeout=timeout,
                             extra={"mode": "bounded-batch", "cases": cases, "samples": samples,
                                    "seed": seed})


def replay_subprocess(modname, cname, case, values, timeout=120, extra=None):
    """replay one counter-model against the real code; returns dict"""
    d = {"module": modname, "contract": cname, "case": case, "values": values}
    d.update(extra or {})
    spec = json.dumps(d)
    env = dict(os.environ)
    env["PYTHONPATH"] = REPO + os.pathsep + VERIF
    env["PYTHONHASHSEED"] = "0"
    env.pop("DATEPARSER_VERIF", None)
    try:
        r = subprocess.run([sys.executable, "-m", "pyvc.replay"], input=spec, capture_output=True,
                           text=True, timeout=timeout, env=env, cwd=VERIF)
    except subprocess.TimeoutExpired:
        return {"error": "replay timeout"}
    if r.returncode != 0:
        return {"error": "replay crashed: " + (r.stderr or "")[-600:]}
    try:
        return json.loads(r.stdout.strip().splitlines()[-1])
    except Exception:
        return {"error": "replay output unreadable: " + r.stdout[-300:]}
