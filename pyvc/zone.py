"""Zone theory: the assumed contract of tzinfo implementations (pytz, zoneinfo, tzlocal).

  OFF(z, i)  : offset (seconds) that zone z applies at UTC second i         -- arbitrary function
  LOC(z, w)  : the UTC second whose wall clock (in seconds) in z is w       -- arbitrary function
  (second granularity: offsets are whole seconds and change at whole seconds, so the sub-second
  part of an instant passes through unchanged)
  axiom (instantiated at every use): LOC(z, w) + OFF(z, LOC(z, w)) == w   [w unambiguous in z: the
  property's own side condition]; and for an instant i: LOC(z, i + OFF(z, i)) == i.

Three kinds of tzinfo object:
  * fixed offset (pytz.UTC, pytz.FixedOffset, datetime.timezone, dateparser's StaticTzInfo): exact.
  * SZone(kind='pytz'): an abstract pytz zone.  Aware datetimes carry an SVariant (zone, used_off):
    pytz hands out fixed-offset variants and wall-clock arithmetic keeps the variant.
  * SZone(kind='plain'): an abstract zoneinfo/dateutil style zone; the offset is recomputed from the
    wall clock on demand.
Real variable-offset zones met with a symbolic datetime are abstracted to an SZone of their kind
(sound for proving; a counterexample must replay natively to count).
"""
import datetime as _dt

import z3

from .core import SInt, Sym, Unsupported, cur, is_sym, mk_int, toint_z3

OFF = z3.Function("OFF", z3.IntSort(), z3.IntSort(), z3.IntSort())
LOC = z3.Function("LOC", z3.IntSort(), z3.IntSort(), z3.IntSort())
DAY_US = 86400 * 1000000

_zone_ids = {}


class SZone:
    """abstract time zone (an ordinary object: identity matters, contents are the theory's)"""

    def __init__(self, name, kind="pytz"):
        assert kind in ("pytz", "plain")
        self.name = name
        self.kind = kind
        self.zid = 1000 + sum(ord(c) * (i + 1) for i, c in enumerate(name)) % 100000
        self.zone = name  # pytz zones have .zone

    def __repr__(self):
        return "<SZone %s %s>" % (self.kind, self.name)

    # pytz API (present only on pytz zones: hasattr(tz, 'localize') is how the code tells them apart)
    def __getattr__(self, name):
        if name == "localize" and self.__dict__.get("kind") == "pytz":
            return lambda dt, is_dst=False: localize(self, dt)
        if name == "normalize" and self.__dict__.get("kind") == "pytz":
            return lambda dt, is_dst=False: normalize(self, dt)
        raise AttributeError(name)

    def utcoffset(self, dt):
        return utcoffset_of(self, dt)

    def __eq__(self, o):
        return self is o

    def __ne__(self, o):
        return self is not o

    def __hash__(self):
        return id(self)


class SVariant:
    """a pytz fixed-offset variant of an abstract zone"""

    def __init__(self, zone, off):
        self.zone_obj = zone
        self.off = off  # int or SInt, microseconds
        self.zone = zone.name

    def __repr__(self):
        return "<SVariant of %s off=%r>" % (self.zone_obj.name, self.off)

    def __getattr__(self, name):
        if name == "localize":
            return lambda dt, is_dst=False: localize(self.zone_obj, dt)
        if name == "normalize":
            return lambda dt, is_dst=False: normalize(self.zone_obj, dt)
        raise AttributeError(name)

    def utcoffset(self, dt):
        from .cal import mk_timedelta

        return mk_timedelta(self.off)

    # pytz: variants of one zone compare unequal to the zone object unless same offset variant;
    # `date_time.tzinfo != usr_timezone` in apply_tzdatabase_timezone relies on object comparison
    def __eq__(self, o):
        return self is o

    def __ne__(self, o):
        return self is not o

    def __hash__(self):
        return id(self)


def _zid(tz):
    if isinstance(tz, SZone):
        return tz.zid
    if isinstance(tz, SVariant):
        return tz.zone_obj.zid
    key = getattr(tz, "zone", None) or getattr(tz, "key", None) or repr(tz)
    if key not in _zone_ids:
        _zone_ids[key] = 200000 + len(_zone_ids)
    return _zone_ids[key]


def fixed_offset_us(tz):
    """offset in microseconds if tz is a fixed-offset tzinfo, else None"""
    from .cal import _td_us

    if isinstance(tz, SVariant):
        return tz.off
    if isinstance(tz, SZone):
        return None
    if isinstance(tz, _dt.timezone):
        return _td_us(tz.utcoffset(None))
    tn = type(tz).__name__
    mod = type(tz).__module__ or ""
    if tn == "StaticTzInfo":
        return _td_us(tz.utcoffset(None))
    if mod.startswith("pytz"):
        import pytz

        if tz is pytz.utc or tn == "_FixedOffset":
            return _td_us(tz.utcoffset(None))
        if hasattr(tz, "_utcoffset") and not hasattr(tz, "_utc_transition_times"):
            return _td_us(tz._utcoffset)
        if hasattr(tz, "_utcoffset") and tz is not getattr(tz, "_tzinfos", {}).get(
            (tz._utcoffset, tz._dst, tz._tzname), None
        ):
            pass
        if hasattr(tz, "_utc_transition_times"):
            # a DstTzInfo: aware datetimes hold a fixed variant whose utcoffset() ignores its argument
            return None
        return _td_us(tz.utcoffset(None))
    return None


def is_pytz_variant(tz):
    return hasattr(tz, "_utc_transition_times") and hasattr(tz, "_utcoffset")


def gives_offset(tz):
    return True


S_US = 1000000


def _off(zid, inst):
    return mk_int(OFF(z3.IntVal(zid), toint_z3(inst) / S_US) * S_US)


def _loc(zid, wall):
    """LOC at second granularity: offsets are whole seconds and change at whole seconds (true of
    the tz database and of every fixed-offset zone), so the sub-second part passes through."""
    p = cur()
    w = toint_z3(wall)
    ws, wr = w / S_US, w % S_US
    z = z3.IntVal(zid)
    i = LOC(z, ws)
    # axiom instance: unambiguous wall clock
    p._add(i + OFF(z, i) == ws)
    p._add(OFF(z, i) > -86400)
    p._add(OFF(z, i) < 86400)
    return mk_int(i * S_US + wr)


def _off_at(zid, inst):
    p = cur()
    z = z3.IntVal(zid)
    i = toint_z3(inst) / S_US
    o = OFF(z, i)
    p._add(o > -86400)
    p._add(o < 86400)
    # round trip: the wall clock of an instant localizes back to it (unambiguous)
    p._add(LOC(z, i + o) == i)
    return mk_int(o * S_US)


def utcoffset_of(tz, dt):
    """tz.utcoffset(dt) as a timedelta-like"""
    from .cal import SDateTime, dt_wall_us, mk_timedelta

    f = fixed_offset_us(tz)
    if f is not None:
        return mk_timedelta(f)
    if is_pytz_variant(tz) and not isinstance(tz, SZone):
        # real pytz variant: constant offset
        from .cal import _td_us

        return mk_timedelta(_td_us(tz._utcoffset))
    if dt is None:
        return None
    if not isinstance(dt, SDateTime) and not isinstance(tz, SZone):
        return tz.utcoffset(dt)
    # variable zone, offset recomputed from the wall clock
    zid = _zid(tz)
    w = dt_wall_us(dt)
    i = _loc(zid, w)
    return mk_timedelta(w - i)


def localize(tz, dt):
    """pytz: tz.localize(naive dt) -> aware datetime holding the variant in force"""
    from .cal import dt_tz, dt_wall_us, with_tz

    if dt_tz(dt) is not None:
        raise ValueError("Not naive datetime (tzinfo is already set)")
    f = fixed_offset_us(tz)
    if f is not None:
        return with_tz(dt, tz)
    zone = tz.zone_obj if isinstance(tz, SVariant) else tz
    if not isinstance(zone, SZone):
        zone = abstract_zone(zone)
    w = dt_wall_us(dt)
    i = _loc(zone.zid, w)
    if zone.kind == "pytz":
        return with_tz(dt, SVariant(zone, w - i))
    return with_tz(dt, zone)


def normalize(zone, dt):
    """pytz: tz.normalize(aware dt) -> the same instant, carrying the variant in force at it (the
    wall clock moves when the carried offset was stale)"""
    from .cal import dt_tz

    if dt_tz(dt) is None:
        raise ValueError("Naive time - no tzinfo set")
    return astimezone(dt, zone)


_abstracted = {}


def abstract_zone(tz):
    key = id(tz)
    if key not in _abstracted:
        kind = "pytz" if hasattr(tz, "localize") else "plain"
        z = SZone(getattr(tz, "zone", None) or getattr(tz, "key", None) or repr(tz), kind)
        z.zid = _zid(tz)
        z.real = tz
        _abstracted[key] = z
    return _abstracted[key]


def datetime_from_wall_us(wall, tz):
    """the datetime whose wall clock is `wall` microseconds (ordinal based); OverflowError outside"""
    from .cal import MAXORD, SDateTime, _fields_from_wall, _raw_datetime, _rng

    if not _rng(DAY_US, wall, (MAXORD + 1) * DAY_US - 1):
        raise OverflowError("date value out of range")
    if isinstance(wall, int):
        return _raw_datetime(*_fields_from_wall(wall), tz)
    return SDateTime.from_wall(wall, tz)


def astimezone(dt, tz):
    from .cal import SDateTime, dt_tz, dt_utc_us

    src = dt_tz(dt)
    if src is None:
        raise Unsupported("astimezone() on a naive datetime (system local time)")
    if tz is None:
        raise Unsupported("astimezone() to the system local zone")
    if tz is src:
        return dt
    utc = dt_utc_us(dt)
    f = fixed_offset_us(tz)
    if f is not None:
        return datetime_from_wall_us(utc + f, tz)
    zone = tz.zone_obj if isinstance(tz, SVariant) else tz
    if not isinstance(zone, SZone):
        if not isinstance(dt, SDateTime):
            return dt.astimezone(tz)
        zone = abstract_zone(zone)
    o = _off_at(zone.zid, utc)
    if zone.kind == "pytz":
        return datetime_from_wall_us(utc + o, SVariant(zone, o))
    return datetime_from_wall_us(utc + o, zone)


def instant_us(dt):
    """UTC instant (ordinal-based microseconds) of an aware datetime; wall clock for a naive one"""
    from .cal import dt_tz, dt_utc_us, dt_wall_us

    if dt_tz(dt) is None:
        return dt_wall_us(dt)
    return dt_utc_us(dt)


def spec_localize(zone, wall_us):
    """spec function: the instant at which `zone` shows `wall_us` (dual of OFF)"""
    f = fixed_offset_us(zone)
    if f is not None:
        return wall_us - f
    return _loc(_zid(zone), wall_us)


def spec_wall_in(zone, inst):
    f = fixed_offset_us(zone)
    if f is not None:
        return inst + f
    return inst + _off_at(_zid(zone), inst)
