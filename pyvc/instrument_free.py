"""Helpers usable in both modes without importing the instrumentation (replay runs the real code)."""


def sym_int_free(x):
    if isinstance(x, str):
        return int(x)
    from .sstr import sym_int

    return sym_int(x)
