"""C05 / C06 through the front end of languages other than English (proof part).

`DateDataParser(languages=[L]).get_date_data(s)` is executed symbolically from the caller's string
for a fixed list of languages: sanitize_date, Locale(L).is_applicable / translate on L's real
vocabulary (simplifications, dictionary split, numeral translation), the parser chain, the
tokenizer and `_parser` / the relative-date parser.  The word is literal (one case per vocabulary
entry that the data lists with a single meaning, computed from the data file itself), every digit
and the reference time are symbolic - so where the vocabulary stand-ins evaluate two or three
concrete dates per name, an obligation here covers every day and every year.

The languages are a stated subset (LANGS); all the other languages and every regional locale stay
with the exhaustive stand-ins `vocab_names` / `vocab_relative`, which are never counted as proved.
"""
from pyvc.cal import dim
from pyvc.spec import And

from .c_parser import same_fields

# languages whose front end is executed (quick tier: the first names of each; thorough: all names)
LANGS = ["fr", "de", "es", "it", "pt", "nl", "ru", "tr", "pl", "sv", "id", "fi", "cs", "el", "uk", "da", "ro"]
Q_PER_LANG = 3


def _names(lang, keys):
    from standins.vocab import info_of, single_meaning_names

    return single_meaning_names(info_of(lang), keys)


def _parser_for(lang, st):
    import collections

    from dateparser.date import DateDataParser

    parser = DateDataParser.__new__(DateDataParser)
    parser._settings = st
    parser.try_previous_locales = False
    parser.use_given_order = False
    parser.languages = [lang]
    parser.locales = None
    parser.region = None
    parser.detect_languages_function = None
    parser.previous_locales = collections.OrderedDict()
    return parser


class front_end_lang_month_names:
    """`D <month name> YYYY` with language L selected, for every single-meaning month name of L:
    valid written date => exactly that day, month and year, period `day`, locale L."""

    name = "date.DateDataParser.get_date_data/lang-front-end>D-month-name-YYYY"
    func = "dateparser.date.DateDataParser.get_date_data"
    props = ["C05"]

    @staticmethod
    def cases(thorough=False):
        from standins.vocab import MONTHS

        out = []
        for lang in LANGS:
            names = _names(lang, MONTHS)
            if not thorough:
                # a spread over the year that changes with the language
                k = LANGS.index(lang)
                names = [names[(k * 5 + j * 7) % len(names)] for j in range(Q_PER_LANG)]
            for key, name in names:
                out.append(dict(lang=lang, month=MONTHS.index(key) + 1, name=name,
                                dd=2 if (len(out) % 2 == 0) else 1))
        return out

    @staticmethod
    def setup(inp, case):
        from pyvc.harness import build, make_settings

        now = inp.datetime("now")
        st = make_settings(RELATIVE_BASE=now, TIMEZONE="UTC")
        s, f = build(inp, [("D", case["dd"]), " ", case["name"], " ", ("Y", 4)])
        Y, D, m = f["Y"], f["D"], case["month"]
        inp.assume(And(Y >= 1, D >= 1, D <= dim(Y, m)))
        parser = _parser_for(case["lang"], st)

        def run(string):
            r = parser.get_date_data(string)
            return r.date_obj, r.period, r.locale

        return run, (s,), {}, dict(f=f)

    @staticmethod
    def post(case, g, out):
        f = g["f"]
        if not out.ok:
            return {"no-exception": False}
        dt, per, loc = out.value
        if dt is None:
            return {"no-exception": True, "recognised": False}
        return {
            "no-exception": True,
            "recognised": True,
            "exactly-the-written-date": same_fields(dt, f["Y"], case["month"], f["D"], 0, 0, 0, 0),
            "period-day": per == "day",
            "locale": loc == case["lang"],
        }


CONTRACTS = [front_end_lang_month_names]


class front_end_lang_weekday_names:
    """A weekday name of L on its own, language L selected, default preferences: the most recent
    date within the seven days ending at the reference date that falls on that weekday - where
    that window stays inside the reference month (across a month end the month re-imposition
    defect of C09 applies: known finding there, `crosses-month` obligations)."""

    name = "date.DateDataParser.get_date_data/lang-front-end>weekday-name-alone"
    func = "dateparser.date.DateDataParser.get_date_data"
    props = ["C05"]

    @staticmethod
    def cases(thorough=False):
        from standins.vocab import WEEKDAYS

        out = []
        for lang in LANGS:
            names = _names(lang, WEEKDAYS)
            if not thorough:
                k = LANGS.index(lang)
                names = [names[(k * 3 + j * 5) % len(names)] for j in range(2)]
            for key, name in names:
                out.append(dict(lang=lang, target=WEEKDAYS.index(key), name=name))
        return out

    @staticmethod
    def setup(inp, case):
        from pyvc.harness import make_settings

        from .c_parser import _stays_in_month, _weekday_k

        now = inp.datetime("now")
        st = make_settings(RELATIVE_BASE=now, TIMEZONE="UTC")
        k = _weekday_k(now, case["target"], "current_period")
        inp.assume(_stays_in_month(now, k))
        parser = _parser_for(case["lang"], st)

        def run(string):
            r = parser.get_date_data(string)
            return r.date_obj, r.period, r.locale

        return run, (case["name"],), {}, dict(now=now, k=k)

    @staticmethod
    def post(case, g, out):
        from pyvc.cal import weekday_of

        from .c_parser import _midnight, _shift_days

        if not out.ok:
            return {"no-exception": False}
        dt, per, loc = out.value
        if dt is None:
            return {"no-exception": True, "recognised": False}
        now, k = g["now"], g["k"]
        exp = _shift_days(_midnight(now), k)
        return {
            "no-exception": True,
            "recognised": True,
            "within-the-seven-days-ending-at-the-reference-date": And(k >= -6, k <= 0),
            "falls-on-that-weekday": weekday_of(dt.year, dt.month, dt.day) == case["target"],
            "most-recent-such-date": same_fields(dt, exp.year, exp.month, exp.day, 0, 0, 0, 0),
            "period-day": per == "day",
            "locale": loc == case["lang"],
        }


# ---------------------------------------------------------------------------------------------------
# C06: a language's relative phrases against the independent arithmetic of C04 (which the English
# canon is proved equal to: `relative-expression` and its front-end re-statement), so that
# "phrase(L) == canon(en)" follows by transitivity for every count and every reference time.

import re as _re

_CANON = _re.compile(r"^(in )?(\\1|\d+) (decade|year|month|week|day|hour|minute|second) ?(ago)?$")
_MARK = "987654"


def _relative_cases(lang):
    """(kind, text-or-(prefix, suffix), canon, unit, dir, fixed count) for the single-meaning entries
    of L's relative vocabulary whose canon is `[in ]N unit[ ago]` - computed from the data file"""
    import re

    from standins.vocab import info_of, instantiate_counted, meanings

    info = info_of(lang)
    m = meanings(info)
    out = []
    for canon, words in (info.get("relative-type") or {}).items():
        cm = _CANON.match(canon)
        if not cm or cm.group(2) == "\\1" or bool(cm.group(1)) == bool(cm.group(4)):
            continue
        for w in words:
            if m.get(w.lower()) != {"rel:" + canon} or any(ch.isdigit() for ch in w):
                continue
            out.append(("fixed", w, canon, cm.group(3), "in" if cm.group(1) else "ago", int(cm.group(2))))
    pats = info.get("relative-type-regex") or {}
    allp = [(c, p) for c, ps in pats.items() for p in ps]
    for canon, p in allp:
        cm = _CANON.match(canon)
        if not cm or cm.group(2) != "\\1" or bool(cm.group(1)) == bool(cm.group(4)):
            continue
        phrase = instantiate_counted(p, int(_MARK))
        if phrase is None or phrase.count(_MARK) != 1:
            continue
        single = True
        for cnt in ("1", "2", "45"):
            ph = phrase.replace(_MARK, cnt)
            hits = set()
            for c2, p2 in allp:
                try:
                    if re.fullmatch(p2, ph, re.I | re.U):
                        hits.add(c2)
                except re.error:
                    pass
            if hits != {canon}:
                single = False
        if not single:
            continue
        pre, suf = phrase.split(_MARK)
        out.append(("counted", (pre, suf), canon, cm.group(3), "in" if cm.group(1) else "ago", None))
    return out


class front_end_lang_relative:
    """C06: `DateDataParser(languages=[L]).get_date_data(phrase)` for L's fixed relative words and
    counted patterns (count digits symbolic), reference time symbolic == C04's independent calendar
    arithmetic for the canon the phrase is listed under (None exactly when that leaves the range)."""

    name = "date.DateDataParser.get_date_data/lang-front-end>relative-phrase"
    func = "dateparser.date.DateDataParser.get_date_data"
    props = ["C06"]

    @staticmethod
    def cases(thorough=False):
        out = []
        for lang in LANGS:
            rc = _relative_cases(lang)
            fixed = [r for r in rc if r[0] == "fixed"]
            counted = [r for r in rc if r[0] == "counted"]
            if not thorough:
                k = LANGS.index(lang)
                fixed = [fixed[(k + j * 3) % len(fixed)] for j in range(2)] if fixed else []
                counted = [counted[(k * 2 + j * 5) % len(counted)] for j in range(2)] if counted else []
            for kind, text, canon, unit, direction, n in fixed:
                out.append(dict(lang=lang, kind=kind, text=text, canon=canon, units=[unit],
                                dir=direction, fixed=n, digits=[0], PREFER_DATES_FROM="current_period"))
            for i, (kind, text, canon, unit, direction, n) in enumerate(counted):
                for nd in ((1, 2, 3) if thorough else ((1,) if i % 2 else (2,))):
                    out.append(dict(lang=lang, kind=kind, text=list(text), canon=canon, units=[unit],
                                    dir=direction, digits=[nd], PREFER_DATES_FROM="current_period"))
        return out

    @staticmethod
    def setup(inp, case):
        from pyvc.harness import build, make_settings

        b = inp.datetime("b")
        st = make_settings(RELATIVE_BASE=b, TIMEZONE="UTC")
        if case["kind"] == "fixed":
            s, f = case["text"], {"n0": case["fixed"]}
        else:
            pre, suf = case["text"]
            s, f = build(inp, [pre, ("n0", case["digits"][0]), suf])
        parser = _parser_for(case["lang"], st)
        return parser.get_date_data, (s,), {}, dict(b=b, f=f)

    @staticmethod
    def post(case, g, out):
        from .c_fresh import relative_expression as R

        res = R.post(case, g, out)
        if out.ok and out.value is not None and out.value.date_obj is not None:
            res["locale"] = out.value.locale == case["lang"]
        return res


CONTRACTS += [front_end_lang_weekday_names, front_end_lang_relative]
