"""Sidecar contracts for dateparser (the repository is not edited for them).

MODULES   contract modules (each has CONTRACTS = [contract classes])
STANDINS  bounded / exhaustive run-time evaluations of assumed contracts (never counted as proved)
"""
MODULES = [
    "contracts.c_utils",
    "contracts.c_parser",
    "contracts.c_tz",
    "contracts.c_tzcache",
    "contracts.c_strict",
    "contracts.c_fresh",
    "contracts.c_tzparse",
    "contracts.c_formats",
    "contracts.c_calendars",
    "contracts.c_total",
    "contracts.c_state",
    "contracts.c_text",
    "contracts.c_langsel",
    "contracts.c_frontend",
    "contracts.c_frame",
]

STANDINS = [
    {"name": "front_canon_C01", "module": "standins.front_canon", "args": ["--prop", "C01"],
     "props": ["C01"], "timeout": {"quick": 900, "thorough": 3600}},
    {"name": "front_canon_C07", "module": "standins.front_canon", "args": ["--prop", "C07"],
     "props": ["C07"], "timeout": {"quick": 900, "thorough": 3600}},
    {"name": "front_canon_C08", "module": "standins.front_canon", "args": ["--prop", "C08"],
     "props": ["C08"], "timeout": {"quick": 900, "thorough": 3600}},
    {"name": "front_canon_C09", "module": "standins.front_canon", "args": ["--prop", "C09"],
     "props": ["C09"], "timeout": {"quick": 900, "thorough": 3600}},
    {"name": "front_canon_C10", "module": "standins.front_canon", "args": ["--prop", "C10"],
     "props": ["C10"], "timeout": {"quick": 900, "thorough": 3600}},
    {"name": "selftest_calendar", "module": "standins.selftest", "args": ["--part", "calendar"],
     "props": ["C08", "C09"], "timeout": {"quick": 900, "thorough": 7200}},
    {"name": "selftest_regex", "module": "standins.selftest", "args": ["--part", "regex"],
     "props": ["C07"], "timeout": {"quick": 900, "thorough": 7200}},
    {"name": "selftest_reldelta", "module": "standins.selftest", "args": ["--part", "reldelta"],
     "props": ["C04"], "timeout": {"quick": 900, "thorough": 3600}},
    {"name": "selftest_converters", "module": "standins.selftest", "args": ["--part", "converters"],
     "props": ["C15"], "timeout": {"quick": 900, "thorough": 3600}},
    {"name": "front_en_abs", "module": "standins.front_en", "args": ["--part", "abs"],
     "props": ["C01"], "timeout": {"quick": 900, "thorough": 3600}},
    {"name": "front_en_relative", "module": "standins.front_en", "args": ["--part", "relative"],
     "props": ["C04"], "timeout": {"quick": 900, "thorough": 3600}},
    {"name": "front_en_timeonly", "module": "standins.front_en", "args": ["--part", "timeonly"],
     "props": ["C09", "C02"], "timeout": {"quick": 900, "thorough": 3600}},
    {"name": "front_en_order", "module": "standins.front_en", "args": ["--part", "order"],
     "props": ["C07"], "timeout": {"quick": 900, "thorough": 3600}},
    {"name": "vocab_names", "module": "standins.vocab_names", "props": ["C05"],
     "timeout": {"quick": 900, "thorough": 3600}},
    {"name": "tzcache_prefixes", "module": "standins.tzcache_prefixes", "props": ["C19"],
     "timeout": {"quick": 900, "thorough": 7200}},
    {"name": "totality", "module": "standins.totality", "props": ["C02"],
     "timeout": {"quick": 1500, "thorough": 7200}},
    {"name": "vocab_formats", "module": "standins.vocab_formats", "props": ["C14"],
     "timeout": {"quick": 900, "thorough": 3600}},
    {"name": "vocab_relative", "module": "standins.vocab_relative", "props": ["C06"],
     "timeout": {"quick": 900, "thorough": 3600}},
    {"name": "tz_spellings", "module": "standins.tz_spellings", "props": ["C11"],
     "timeout": {"quick": 900, "thorough": 3600}},
    {"name": "sanitize_relational", "module": "standins.sanitize_relational", "props": ["C18"],
     "timeout": {"quick": 900, "thorough": 3600}},
    {"name": "noise_corpus", "module": "standins.noise_corpus", "props": ["C18"],
     "timeout": {"quick": 900, "thorough": 3600}},
    {"name": "search_sweep", "module": "standins.search_sweep", "props": ["C17"],
     "timeout": {"quick": 900, "thorough": 3600}},
    {"name": "history", "module": "standins.history", "props": ["C03", "C01", "C07", "C13"],
     "timeout": {"quick": 900, "thorough": 3600}},
    {"name": "calendars_sweep", "module": "standins.calendars_sweep", "props": ["C15"],
     "timeout": {"quick": 900, "thorough": 7200}},
]

# level claimed per property (must match MANIFEST.json)
LEVELS = {
    "C08": "proof",
    "C09": "proof",
    "C07": "proof",
    "C01": "other",
    "C12": "proof",
    "C19": "proof",
    "C10": "proof",
    "C04": "proof",
    "C11": "other",
    "C14": "other",
    "C15": "other",
    "C02": "other",
    "C03": "other",
    "C18": "other",
    "C17": "other",
    "C13": "other",
    "C05": "other",
    "C06": "other",
}

_COMMON = [
    "pyvc engine: instrumented CPython execution of /repo source (Call, %, in/not-in routed through "
    "hooks that are the identity on concrete values); symbolic ints are mathematical integers",
    "calendar theory (datetime/date/time/timedelta/calendar as linear integer arithmetic over the "
    "proleptic Gregorian ordinal; CPython 3.12 error messages) - cross-checked by tools/selftest.py",
    "z3 4.x/5.x soundness",
]
TRUSTED_BASE = {
    "*": _COMMON,
}
EXPLANATION = {}
