"""Sidecar contracts for dateparser (the repository is not edited for them).

MODULES   contract modules (each has CONTRACTS = [contract classes])
STANDINS  bounded / exhaustive run-time evaluations of assumed contracts (never counted as proved)
"""
MODULES = [
    "contracts.c_utils",
    "contracts.c_parser",
    "contracts.c_tz",
    "contracts.c_tzcache",
    "contracts.c_strict",
    "contracts.c_fresh",
    "contracts.c_tzparse",
    "contracts.c_formats",
    "contracts.c_calendars",
    "contracts.c_total",
    "contracts.c_state",
    "contracts.c_text",
    "contracts.c_langsel",
    "contracts.c_frontend",
    "contracts.c_frontend_lang",
    "contracts.c_frame",
]

STANDINS = [
    {"name": "front_canon_C01", "module": "standins.front_canon", "args": ["--prop", "C01"],
     "props": ["C01"], "timeout": {"quick": 900, "thorough": 3600}},
    {"name": "front_canon_C07", "module": "standins.front_canon", "args": ["--prop", "C07"],
     "props": ["C07"], "timeout": {"quick": 900, "thorough": 3600}},
    {"name": "front_canon_C08", "module": "standins.front_canon", "args": ["--prop", "C08"],
     "props": ["C08"], "timeout": {"quick": 900, "thorough": 3600}},
    {"name": "front_canon_C09", "module": "standins.front_canon", "args": ["--prop", "C09"],
     "props": ["C09"], "timeout": {"quick": 900, "thorough": 3600}},
    {"name": "front_canon_C10", "module": "standins.front_canon", "args": ["--prop", "C10"],
     "props": ["C10"], "timeout": {"quick": 900, "thorough": 3600}},
    {"name": "selftest_calendar", "module": "standins.selftest", "args": ["--part", "calendar"],
     "props": ["C08", "C09"], "timeout": {"quick": 900, "thorough": 7200}},
    {"name": "selftest_regex", "module": "standins.selftest", "args": ["--part", "regex"],
     "props": ["C07"], "timeout": {"quick": 900, "thorough": 7200}},
    {"name": "selftest_reldelta", "module": "standins.selftest", "args": ["--part", "reldelta"],
     "props": ["C04"], "timeout": {"quick": 900, "thorough": 3600}},
    {"name": "selftest_converters", "module": "standins.selftest", "args": ["--part", "converters"],
     "props": ["C15"], "timeout": {"quick": 900, "thorough": 3600}},
    {"name": "front_en_abs", "module": "standins.front_en", "args": ["--part", "abs"],
     "props": ["C01"], "timeout": {"quick": 900, "thorough": 3600}},
    {"name": "front_en_relative", "module": "standins.front_en", "args": ["--part", "relative"],
     "props": ["C04"], "timeout": {"quick": 900, "thorough": 3600}},
    {"name": "front_en_timeonly", "module": "standins.front_en", "args": ["--part", "timeonly"],
     "props": ["C09", "C02"], "timeout": {"quick": 900, "thorough": 3600}},
    {"name": "front_en_order", "module": "standins.front_en", "args": ["--part", "order"],
     "props": ["C07"], "timeout": {"quick": 900, "thorough": 3600}},
    {"name": "vocab_names", "module": "standins.vocab_names", "props": ["C05"],
     "timeout": {"quick": 900, "thorough": 3600}},
    {"name": "tzcache_prefixes", "module": "standins.tzcache_prefixes", "props": ["C19"],
     "timeout": {"quick": 900, "thorough": 7200}},
    {"name": "totality", "module": "standins.totality", "props": ["C02"],
     "timeout": {"quick": 1500, "thorough": 7200}},
    {"name": "vocab_formats", "module": "standins.vocab_formats", "props": ["C14"],
     "timeout": {"quick": 900, "thorough": 3600}},
    {"name": "vocab_relative", "module": "standins.vocab_relative", "props": ["C06"],
     "timeout": {"quick": 900, "thorough": 3600}},
    {"name": "tz_spellings", "module": "standins.tz_spellings", "props": ["C11"],
     "timeout": {"quick": 900, "thorough": 3600}},
    {"name": "sanitize_relational", "module": "standins.sanitize_relational", "props": ["C18"],
     "timeout": {"quick": 900, "thorough": 3600}},
    {"name": "noise_corpus", "module": "standins.noise_corpus", "props": ["C18"],
     "timeout": {"quick": 900, "thorough": 3600}},
    {"name": "search_sweep", "module": "standins.search_sweep", "props": ["C17"],
     "timeout": {"quick": 900, "thorough": 3600}},
    {"name": "history", "module": "standins.history", "props": ["C03", "C01", "C07", "C13"],
     "timeout": {"quick": 900, "thorough": 3600}},
    {"name": "calendars_sweep", "module": "standins.calendars_sweep", "props": ["C15"],
     "timeout": {"quick": 900, "thorough": 7200}},
]

# level claimed per property (must match MANIFEST.json)
LEVELS = {
    "C08": "proof",
    "C09": "proof",
    "C07": "proof",
    "C01": "other",
    "C12": "proof",
    "C19": "proof",
    "C10": "proof",
    "C04": "proof",
    "C11": "other",
    "C14": "other",
    "C15": "other",
    "C02": "other",
    "C03": "other",
    "C18": "other",
    "C17": "other",
    "C13": "other",
    "C05": "other",
    "C06": "other",
}

_COMMON = [
    "pyvc engine: instrumented CPython execution of /repo source (Call, %, in/not-in routed through "
    "hooks that are the identity on concrete values); symbolic ints are mathematical integers",
    "calendar theory (datetime/date/time/timedelta/calendar as linear integer arithmetic over the "
    "proleptic Gregorian ordinal; CPython 3.12 error messages) - cross-checked by tools/selftest.py",
    "z3 4.x/5.x soundness",
]
_ZONE = ("ASSUMED CONTRACT on pytz / zoneinfo / tzlocal (pyvc/zone.py): OFF(zone, instant) and LOC(zone, wall) "
         "are uninterpreted with LOC(z,w) + OFF(z, LOC(z,w)) = w at every use, i.e. unambiguous local times "
         "(the properties' own side condition; skipped and repeated hours are outside the proofs and are "
         "exercised by stand-ins); a pytz-aware datetime carries a fixed-offset variant that wall-clock "
         "arithmetic keeps; localize / normalize / astimezone per the pytz documentation; offsets are whole "
         "seconds.  Checked only by replaying counter-models / witnesses on real zones")
_RX = ("ASSUMED: the symbolic backtracking regex matcher (pyvc/rx.py, over the stdlib sre parse tree of the real "
       "pattern objects) agrees with `regex` / `re` on the patterns it is used with - cross-checked "
       "differentially by the selftest stand-ins, not proved")
_STRP = "stdlib `_strptime` is NOT assumed: its Python source is executed symbolically"
_RD = ("ASSUMED CONTRACT on dateutil.relativedelta: SRelDelta re-implements dateutil 2.9's normalisation and "
       "addition algorithm (cross-checked on a grid by selftest_reldelta)")
_FLOAT = ("floats are not modelled: float('12') is carried as the integer 12; decimal counts are outside the proofs "
          "(stand-ins only)")
_UNI = ("ASSUMED: unicodedata.normalize on a skeleton string = the real function applied to each literal segment, "
        "digit placeholders left alone (ASCII digits are starters and fixed points of every normal form); "
        "unicodedata.category of a digit placeholder is 'Nd'")
_EVAL = ("obligations of contracts marked concrete_samples=1 are decided by EVALUATING the real code over a finite "
         "domain stated in the contract's docstring (exhaustive over that domain), not by the solver")
_CONV = ("ASSUMED CONTRACT on convertdate.persian / hijridate: uninterpreted conversion functions with month-length "
         "facts (Persian 31/30/29-30; Hijri 28..31) and results inside the supported Gregorian range - the "
         "end-to-end stand-in compares with the real converters")
_FS = ("ASSUMED CONTRACT on open() / pickle: a ghost file system (absent / empty / damaged / intact / other pickle) and "
       "pickle.load raising any builtin Exception subclass on damage; the real pickle module on real prefixes is a "
       "stand-in")
_IND = ("paper argument, not machine-checked: per-call frame conditions and cache postconditions imply history "
        "independence by induction over the call sequence; the shared-state write-site scan enumerates the state "
        "that argument has to cover; small-scope bounds (cache shapes <= 3 keys, token lists <= 4)")
_CLDR = ("the CLDR source shipped in dateparser_data/cldr_language_data is taken as the reference for a locale's own "
         "date order")
_STAND = "stand-ins (bounded or finite-domain run-time evaluation on the real library) are reported separately and never counted as discharged obligations"
TRUSTED_BASE = {
    "*": _COMMON + [_EVAL, _STAND],
    "C01": _COMMON + [_RX, _STRP, _ZONE, _UNI, _EVAL, _STAND],
    "C02": _COMMON + [_RX, _STRP, _ZONE, _UNI, _EVAL, _STAND],
    "C03": _COMMON + [_IND, _EVAL, _STAND],
    "C04": _COMMON + [_RX, _RD, _FLOAT, _ZONE, _UNI, _EVAL, _STAND],
    "C05": _COMMON + [_RX, _STRP, _UNI, _EVAL, _STAND],
    "C06": _COMMON + [_RX, _RD, _FLOAT, _UNI, _EVAL, _STAND],
    "C07": _COMMON + [_RX, _STRP, _UNI, _CLDR, _EVAL, _STAND],
    "C08": _COMMON + [_RX, _STRP, _UNI, _EVAL, _STAND],
    "C09": _COMMON + [_RX, _STRP, _ZONE, _UNI, _EVAL, _STAND],
    "C10": _COMMON + [_RX, _STRP, _UNI, _EVAL, _STAND],
    "C11": _COMMON + [_RX, _ZONE, _FS, _EVAL, _STAND],
    "C12": _COMMON + [_RX, _ZONE, _EVAL, _STAND],
    "C13": _COMMON + [_EVAL, _STAND],
    "C14": _COMMON + [_RX, _STRP, _EVAL, _STAND],
    "C15": _COMMON + [_RX, _STRP, _CONV, _EVAL, _STAND],
    "C17": _COMMON + [_EVAL, _STAND],
    "C18": _COMMON + [_RX, _UNI, _EVAL, _STAND],
    "C19": _COMMON + [_FS, _EVAL, _STAND],
}
EXPLANATION = {}
