"""Contracts for C13: DateDataParser.get_date_data / _get_applicable_locales over abstract locales.

Locale.is_applicable and _DateLocaleParser.parse are replaced by arbitrary (symbolic) truth tables
A(l, s) and P(l): the obligations hold for every applicability relation and every pattern of
per-locale parse success, for locale lists of the sizes in the case split.  The loader is replaced
by its contract (the requested codes, ordered by library priority unless use_given_order) and checked
separately on the real data (loader_order).
"""
import datetime as _dt

from pyvc.spec import And, Implies, Not, Or

PRIORITY = ["a", "b", "c", "d", "e"]


class _StubLocale:
    def __init__(self, code, table):
        self.shortname = code
        self._table = table

    def is_applicable(self, date_string, strip_timezone=False, settings=None):
        return self._table[(self.shortname, date_string)]

    def __hash__(self):
        return hash(self.shortname)

    def __eq__(self, o):
        return isinstance(o, _StubLocale) and o.shortname == self.shortname


class first_success_law:
    name = "date.DateDataParser.get_date_data/first-success-law"
    func = "dateparser.date.DateDataParser.get_date_data"
    props = ["C13"]

    @staticmethod
    def cases():
        out = []
        for requested in (["b", "a", "c"], ["c", "a"], ["b"]):
            for defaults in ([], ["d"], ["a"], ["e", "a"]):
                for given in (False, True):
                    for tz in (False, True):
                        for prev in ([], ["c"]):
                            if prev and (tz or defaults == ["e", "a"]):
                                continue
                            out.append(dict(requested=requested, defaults=defaults,
                                            use_given_order=given, tz=tz, previous=prev,
                                            kind="languages"))
        out.append(dict(requested=["b", "a"], defaults=["d"], use_given_order=False, tz=True,
                        previous=[], kind="locales"))
        return out

    @staticmethod
    def setup(inp, case):
        import collections

        import dateparser.date as D
        from pyvc.harness import make_settings

        S, STRIPPED = "the date string +0100", "the date string"
        codes = sorted(set(case["requested"]) | set(case["defaults"]) | set(case["previous"]))
        table = {}
        P = {}
        for c in codes:
            table[(c, S)] = inp.bool("A_%s_s" % c)
            table[(c, STRIPPED)] = inp.bool("A_%s_stripped" % c)
            P[c] = inp.bool("P_%s" % c)
        locs = {c: _StubLocale(c, table) for c in codes}
        calls = []

        class Loader:
            def get_locales(self, languages=None, locales=None, region=None, use_given_order=False,
                            allow_conflicting_locales=False):
                wanted = list(locales or languages or PRIORITY)
                calls.append(list(wanted))
                if not use_given_order:
                    wanted = sorted(wanted, key=PRIORITY.index)
                for c in wanted:
                    yield locs[c]

        st = make_settings(DEFAULT_LANGUAGES=list(case["defaults"]))
        parser = D.DateDataParser.__new__(D.DateDataParser)
        parser._settings = st
        parser.try_previous_locales = bool(case["previous"])
        parser.use_given_order = case["use_given_order"]
        parser.languages = list(case["requested"]) if case["kind"] == "languages" else None
        parser.locales = list(case["requested"]) if case["kind"] == "locales" else None
        parser.region = None
        parser.detect_languages_function = None
        parser.previous_locales = collections.OrderedDict((locs[c], None) for c in case["previous"])
        loader = Loader()
        parser._get_locale_loader = lambda: loader
        D.sanitize_date = lambda s: s
        D.pop_tz_offset_from_string = (lambda s, as_offset=True: (STRIPPED, "TZ")) if case["tz"] \
            else (lambda s, as_offset=True: (s, None))

        def fake_parse(locale, date_string, date_formats=None, settings=None):
            if P[locale.shortname]:
                return D.DateData(date_obj=_dt.datetime(2020, 1, 1 + PRIORITY.index(
                    locale.shortname)), period="day")
            return None

        D._DateLocaleParser.parse = staticmethod(fake_parse)
        return parser.get_date_data, (S,), {}, dict(table=table, P=P, S=S, STRIPPED=STRIPPED,
                                                    calls=calls)

    @staticmethod
    def post(case, g, out):
        if not out.ok:
            return {"no-exception": False}
        dd = out.value
        table, P, S, ST = g["table"], g["P"], g["S"], g["STRIPPED"]
        req = list(case["requested"])
        if not case["use_given_order"]:
            req = sorted(req, key=PRIORITY.index)
        dfl = list(case["defaults"])
        if not case["use_given_order"]:
            dfl = sorted(dfl, key=PRIORITY.index)

        def applicable(c):
            if case["tz"]:
                return Or(table[(c, S)], table[(c, ST)])
            return table[(c, S)]

        # spec: the sequence of (locale, tried-condition) in order
        seq = [(c, applicable(c)) for c in case["previous"]] + [(c, applicable(c)) for c in req] \
            + [(c, True) for c in dfl]
        res = {"no-exception": True}
        # expected winner: first entry whose condition and P hold
        none_before = True
        clauses = []
        for c, cond in seq:
            wins = And(none_before, cond, P[c])
            got_c = And(dd.date_obj is not None, dd.locale == c)
            clauses.append(Implies(wins, got_c))
            none_before = And(none_before, Not(And(cond, P[c])))
        res["result-is-the-first-language-in-order-whose-parse-succeeds"] = And(*clauses)
        res["nothing-recognised=>empty-DateData"] = Implies(
            none_before, And(dd.date_obj is None, dd.locale is None, dd.period == "day"))
        allowed = set(case["requested"]) | set(case["defaults"]) | set(case["previous"])
        res["reported-locale-among-requested-or-defaults"] = dd.locale is None or dd.locale in allowed
        # defaults are consulted only as a fallback: the loader is asked for them separately
        res["defaults-never-mixed-into-the-requested-list"] = all(
            sorted(c) in (sorted(case["requested"]), sorted(case["defaults"])) for c in g["calls"])
        return res


class loader_order:
    """LocaleDataLoader._load_data on the real data: yields exactly the requested locales, in library
    priority order unless use_given_order; unknown codes raise ValueError."""

    name = "loader.LocaleDataLoader._load_data/order"
    func = "dateparser.languages.loader.LocaleDataLoader._load_data"
    props = ["C13"]
    concrete_samples = 1

    @staticmethod
    def cases():
        import itertools

        out = []
        for perm in itertools.permutations(["fr", "en", "tl", "zh"]):
            for given in (False, True):
                out.append(dict(languages=list(perm), use_given_order=given, kind="languages"))
        for locs in (["fr-CA", "en-GB", "pt-PT"], ["pt-PT", "fr-CA"]):
            for given in (False, True):
                out.append(dict(languages=locs, use_given_order=given, kind="locales"))
        out.append(dict(languages=["en", "xx"], use_given_order=False, kind="languages"))
        out.append(dict(languages=["en-XX"], use_given_order=False, kind="locales"))
        out.append(dict(languages=["en-GB", "en-US"], use_given_order=False, kind="locales"))
        out.append(dict(languages=["en", "fr"], use_given_order=False, kind="region-CA"))
        # the whole priority order at once: every language (script-qualified ones such as zh-Hant,
        # sr-Latn, pa-Arab included) requested in reverse; one regional locale per language likewise
        out.append(dict(languages="ALL-REVERSED", use_given_order=False, kind="languages"))
        out.append(dict(languages="ALL-REVERSED", use_given_order=True, kind="languages"))
        out.append(dict(languages="ONE-LOCALE-EACH-REVERSED", use_given_order=False, kind="locales"))
        for pair in (["zh-Hant", "nl"], ["sr-Latn", "lt"], ["yue", "zh-Hant"], ["ps", "pa-Arab"],
                     ["uz-Cyrl", "uz", "uz-Arab"], ["sr-Cyrl", "sr", "sr-Latn"]):
            out.append(dict(languages=pair, use_given_order=False, kind="languages"))
        out.append(dict(languages=["zh-Hant-HK", "nl-BE", "zh-Hans-SG"], use_given_order=False,
                        kind="locales"))
        return out

    @staticmethod
    def _requested(case):
        from dateparser.data import language_locale_dict, language_order

        langs = case["languages"]
        if langs == "ALL-REVERSED":
            return list(reversed(language_order))
        if langs == "ONE-LOCALE-EACH-REVERSED":
            return [language_locale_dict[l][len(language_locale_dict[l]) // 2]
                    for l in reversed(language_order) if language_locale_dict.get(l)]
        return list(langs)

    @staticmethod
    def setup(inp, case):
        from dateparser.languages.loader import LocaleDataLoader

        def run():
            ld = LocaleDataLoader()
            req = loader_order._requested(case)
            if case["kind"] == "languages":
                return [l.shortname for l in ld.get_locales(
                    languages=req, use_given_order=case["use_given_order"])]
            if case["kind"] == "region-CA":
                return [l.shortname for l in ld.get_locales(languages=req, region="CA")]
            return [l.shortname for l in ld.get_locales(
                locales=req, use_given_order=case["use_given_order"])]

        return run, (), {}, {}

    @staticmethod
    def post(case, g, out):
        from dateparser.data import language_order

        import re

        def language_of(code):
            # a locale code is <language>-<REGION>; the language itself may carry a script subtag
            return re.split(r"-(?=[A-Z0-9]+$)", code)[0]

        langs = loader_order._requested(case)
        bad = any(language_of(l) not in language_order for l in langs) or "en-XX" in langs \
            or langs == ["en-GB", "en-US"]
        if bad:
            return {"unknown-or-conflicting=>ValueError": out.raised(ValueError)}
        if not out.ok:
            return {"no-exception": False}
        if case["kind"] == "region-CA":
            return {"no-exception": True, "region-builds-the-regional-locales":
                    out.value == ["en-CA", "fr-CA"]}
        want = list(langs)
        if not case["use_given_order"]:
            want = sorted(want, key=lambda x: language_order.index(language_of(x)))
        return {"no-exception": True, "exactly-the-requested-in-order": out.value == want}


CONTRACTS = [first_success_law, loader_order]


class parse_wrapper_selection:
    """dateparser.parse(): every selection argument the caller gives reaches the parser that answers.
    For each of the 32 combinations of {languages, locales, region, detect_languages_function,
    settings} given / not given: if any is given, a DateDataParser constructed with exactly the given
    arguments produces the result; if none is, the shared default parser does.  DateDataParser and the
    default parser are replaced by recorders; `parse` itself (and apply_settings) is the real code."""

    name = "dateparser.parse/selection-arguments-reach-the-parser"
    func = "dateparser.parse"
    props = ["C13"]
    concrete_samples = 1

    @staticmethod
    def cases():
        import itertools

        return [dict(languages=a, locales=b, region=c, detect=d, settings=e)
                for a, b, c, d, e in itertools.product((False, True), repeat=5)]

    @staticmethod
    def setup(inp, case):
        import dateparser

        calls = []

        class Recorder:
            def __init__(self, **kw):
                self.kw = kw

            def get_date_data(self, s, formats=None):
                calls.append(("constructed", self.kw, s, formats))
                return {"date_obj": "R"}

        class Default:
            def get_date_data(self, s, formats=None):
                calls.append(("default", None, s, formats))
                return {"date_obj": "D"}

        dateparser.DateDataParser = Recorder
        dateparser._default_parser = Default()
        fn = (lambda text, confidence_threshold: ["en"])
        args = dict(languages=["en"] if case["languages"] else None,
                    locales=["en-AU"] if case["locales"] else None,
                    region="AU" if case["region"] else None,
                    detect_languages_function=fn if case["detect"] else None,
                    settings={"DATE_ORDER": "DMY"} if case["settings"] else None)

        def run():
            r = dateparser.parse("02/03/2015", date_formats=["%d"], **args)
            return r, calls

        return run, (), {}, dict(args=args)

    @staticmethod
    def post(case, g, out):
        if not out.ok:
            return {"no-exception": False}
        r, calls = out.value
        a = g["args"]
        res = {"no-exception": True, "exactly-one-parser-asked": len(calls) == 1}
        if len(calls) != 1:
            return res
        kind, kw, s, formats = calls[0]
        res["string-and-formats-passed-on"] = s == "02/03/2015" and formats == ["%d"]
        if any(case[k] for k in ("languages", "locales", "region", "detect", "settings")):
            ok = kind == "constructed" and r == "R" and kw.get("languages") == a["languages"] \
                and kw.get("locales") == a["locales"] and kw.get("region") == a["region"] \
                and kw.get("detect_languages_function") is a["detect_languages_function"]
            st = kw.get("settings") if kind == "constructed" else None
            if case["settings"]:
                ok = ok and st is not None and getattr(st, "DATE_ORDER", None) == "DMY"
            res["a-parser-built-from-exactly-the-given-arguments-answers"] = ok
        else:
            res["the-default-parser-answers"] = kind == "default" and r == "D"
        return res


CONTRACTS += [parse_wrapper_selection]
