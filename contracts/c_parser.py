"""Contracts: dateparser/parser.py — the absolute-parser kernel `_parser.parse` on canonical
skeleton strings (what the English front end hands to it), and its helper methods.

INLINE: `_parser.parse` is verified with its own methods (tokenizer.tokenize, __init__, _parse,
_results, _get_datetime_obj, _correct_for_time_frame/_month/_day, _get_period), utils.strptime.strptime
and the stdlib's pure-Python _strptime executed in place (one symbolic run covers all of them); the
utils helpers additionally have their own contracts (c_utils).
"""
from pyvc.spec import And, Implies, Ite, Not, Or, dim, isleap, same_fields

PREFS = ("first", "last", "current")
FROM = ("current_period", "past", "future")
MONTHS = ["january", "february", "march", "april", "may", "june", "july", "august", "september",
          "october", "november", "december"]
ABBR = ["jan", "feb", "mar", "apr", "may", "jun", "jul", "aug", "sep", "oct", "nov", "dec"]


def _settings(inp, case, **extra):
    from pyvc.harness import make_settings

    if case.get("aware_offset_h") is not None:
        # an offset-aware reference time: its own calendar day is the reference day
        import datetime as _dtm

        now = inp.datetime("now", tz=_dtm.timezone(_dtm.timedelta(hours=case["aware_offset_h"])))
    else:
        now = inp.datetime("now")
    kw = dict(RELATIVE_BASE=now, TIMEZONE="UTC")
    for k in ("PREFER_DAY_OF_MONTH", "PREFER_MONTH_OF_YEAR", "PREFER_DATES_FROM",
              "RETURN_TIME_AS_PERIOD", "DATE_ORDER", "STRICT_PARSING", "REQUIRE_PARTS"):
        if k in case:
            kw[k] = case[k]
    kw.update(extra)
    return make_settings(**kw), now


def _pick_day(pref, ref_day, y, m):
    L = dim(y, m)
    if pref == "first":
        return 1
    if pref == "last":
        return L
    return Ite(ref_day <= L, ref_day, L)


class parse_incomplete:
    """C08: completion of missing day / month exactly as configured; full dates untouched; period."""

    name = "parser._parser.parse/completion"
    func = "dateparser.parser._parser.parse"
    props = ["C08"]
    QUICK_MONTHS = ["february", "april", "december", "jan"]

    @classmethod
    def cases(cls, thorough=False):
        out = []
        months = (MONTHS + ABBR) if thorough else cls.QUICK_MONTHS
        froms = FROM if thorough else ("current_period",)
        for pd in PREFS:
            for pm in PREFS:
                for pf in froms:
                    base = dict(PREFER_DAY_OF_MONTH=pd, PREFER_MONTH_OF_YEAR=pm,
                                PREFER_DATES_FROM=pf)
                    out.append(dict(base, form="year"))
                    for mo in months:
                        out.append(dict(base, form="month-year", month=mo))
        # full dates: never altered by the preferences (all 27 combinations, both day layouts)
        for pd in PREFS:
            for pm in PREFS:
                for pf in FROM:
                    base = dict(PREFER_DAY_OF_MONTH=pd, PREFER_MONTH_OF_YEAR=pm,
                                PREFER_DATES_FROM=pf)
                    for mo in (months if thorough else ["february", "nov"]):
                        for nd in (1, 2):
                            out.append(dict(base, form="full", month=mo, daydigits=nd))
        # offset-aware reference times (east and west of UTC): the reference's own day / month count
        for off in (-5, 9):
            for pd in PREFS:
                out.append(dict(form="month-year", month="march", aware_offset_h=off,
                                PREFER_DAY_OF_MONTH=pd, PREFER_MONTH_OF_YEAR="current",
                                PREFER_DATES_FROM="current_period"))
            out.append(dict(form="year", aware_offset_h=off, PREFER_DAY_OF_MONTH="current",
                            PREFER_MONTH_OF_YEAR="current", PREFER_DATES_FROM="current_period"))
        # period 'time' iff requested and a clock time is present
        for rtp in (False, True):
            out.append(dict(form="full-time", month="november", daydigits=2,
                            RETURN_TIME_AS_PERIOD=rtp))
            out.append(dict(form="month-year", month="march", RETURN_TIME_AS_PERIOD=rtp,
                            PREFER_DAY_OF_MONTH="current", PREFER_MONTH_OF_YEAR="current",
                            PREFER_DATES_FROM="current_period"))
        return out

    @staticmethod
    def setup(inp, case):
        from dateparser.parser import _parser
        from pyvc.harness import build

        st, now = _settings(inp, case)
        form = case["form"]
        if form == "year":
            tpl = [("Y", 4)]
        elif form == "month-year":
            tpl = [case["month"], " ", ("Y", 4)]
        elif form == "full":
            tpl = [("D", case["daydigits"]), " ", case["month"], " ", ("Y", 4)]
        else:
            tpl = [("D", case["daydigits"]), " ", case["month"], " ", ("Y", 4), " ", ("H", 2), ":",
                   ("M", 2)]
        s, f = build(inp, tpl)
        return _parser.parse, (s, st), {}, dict(now=now, f=f)

    @staticmethod
    def post(case, g, out):
        now, f = g["now"], g["f"]
        form = case["form"]
        Y = f["Y"]
        pd = case.get("PREFER_DAY_OF_MONTH", "current")
        pm = case.get("PREFER_MONTH_OF_YEAR", "current")
        if "month" in case:
            mname = case["month"]
            m = (MONTHS.index(mname) if mname in MONTHS else ABBR.index(mname)) + 1
        if form == "year":
            valid = Y >= 1
            em = {"first": 1, "last": 12, "current": now.month}[pm]
            ed = _pick_day(pd, now.day, Y, em)
            exp = (Y, em, ed, 0, 0, 0, 0)
            period = "year"
        elif form == "month-year":
            valid = Y >= 1
            exp = (Y, m, _pick_day(pd, now.day, Y, m), 0, 0, 0, 0)
            period = "month"
        elif form == "full":
            D = f["D"]
            valid = And(Y >= 1, D >= 1, D <= dim(Y, m))
            exp = (Y, m, D, 0, 0, 0, 0)
            period = "day"
        else:
            D, H, M = f["D"], f["H"], f["M"]
            valid = And(Y >= 1, D >= 1, D <= dim(Y, m), H <= 23, M <= 59)
            exp = (Y, m, D, H, M, 0, 0)
            period = "time" if case.get("RETURN_TIME_AS_PERIOD") else "day"
        if not out.ok:
            return {"valid=>parses": Not(valid)}
        dt, per = out.value
        return {
            "valid=>parses": True,
            "valid=>exact-completion": Implies(valid, same_fields(dt, *exp)),
            "valid=>period": Implies(valid, per == period),
            "valid=>naive-result": Implies(valid, dt.tzinfo is None),
        }


class d_month_yyyy(parse_incomplete):
    """C05's kernel: 'D <month> YYYY' (canonical English month word, one- and two-digit day) is exactly
    that date for every day, year and reference time."""

    name = "parser._parser.parse/d-month-yyyy"
    props = ["C05"]

    @classmethod
    def cases(cls, thorough=False):
        months = (MONTHS + ABBR) if thorough else MONTHS
        return [dict(form="full", month=m, daydigits=nd) for m in months for nd in (1, 2)]


CONTRACTS = [parse_incomplete, d_month_yyyy]


# ---------------------------------------------------------------------------------------------------
# C09: PREFER_DATES_FROM

DAYS = ["monday", "tuesday", "wednesday", "thursday", "friday", "saturday", "sunday"]
DAYS_ABBR = ["mon", "tue", "wed", "thu", "fri", "sat", "sun"]


def _shift_days(dt, k):
    """spec: dt + k days (k int or symbolic), dual use"""
    from pyvc import cal

    return cal.shift_days(dt, k)


def _midnight(dt):
    return dt.replace(hour=0, minute=0, second=0, microsecond=0)


def _weekday_k(now, target, pref):
    from pyvc.cal import weekday_of

    wd = weekday_of(now.year, now.month, now.day)
    if pref == "future":
        return ((target - wd - 1) % 7) + 1
    if pref == "past":
        return -(((wd - target - 1) % 7) + 1)
    return -((wd - target) % 7)


def _stays_in_month(now, k):
    d = now.day + k
    return And(d >= 1, d <= dim(now.year, now.month))


class weekday_only:
    """C09: a weekday name alone -> nearest occurrence on the requested side, weekday preserved.
    Three obligations per case (DESIGN C09): (a) _correct_for_time_frame's own postcondition,
    (b) parse when the step stays inside the reference month, (c) parse when it crosses a month end."""

    name = "parser._parser.parse/weekday-only"
    func = "dateparser.parser._parser.parse"
    props = ["C09"]

    @classmethod
    def cases(cls, thorough=False):
        out = []
        names = DAYS + DAYS_ABBR if thorough else ["monday", "thursday", "sun"]
        for nm in names:
            for pf in FROM:
                for region in ("time-frame-step", "same-month", "crosses-month"):
                    out.append(dict(day=nm, PREFER_DATES_FROM=pf, region=region))
        return out

    @staticmethod
    def setup(inp, case):
        from dateparser.parser import _parser, tokenizer

        st, now = _settings(inp, case)
        inp.assume(And(now.year >= 2, now.year <= 9998))  # range ends: OverflowError is C02's subject
        nm = case["day"]
        target = (DAYS.index(nm) if nm in DAYS else DAYS_ABBR.index(nm))
        k = _weekday_k(now, target, case["PREFER_DATES_FROM"])
        if case["region"] == "same-month":
            inp.assume(_stays_in_month(now, k))
        elif case["region"] == "crosses-month":
            inp.assume(Not(_stays_in_month(now, k)))
        if case["region"] == "time-frame-step":
            def f(s, settings):
                po = _parser(tokenizer(s).tokenize(), settings)
                d = po._results()
                return po._correct_for_time_frame(d, None), "day"
        else:
            f = _parser.parse
        return f, (nm, st), {}, dict(now=now, k=k, target=target)

    @staticmethod
    def post(case, g, out):
        from pyvc.cal import weekday_of

        if not out.ok:
            return {"parses": False}
        now, k = g["now"], g["k"]
        dt, per = out.value
        exp = _shift_days(_midnight(now), k)
        pf = case["PREFER_DATES_FROM"]
        lo, hi = {"future": (1, 7), "past": (-7, -1), "current_period": (-6, 0)}[pf]
        return {
            "parses": True,
            "spec-step-in-window": And(k >= lo, k <= hi),
            "weekday-preserved": weekday_of(dt.year, dt.month, dt.day) == g["target"],
            "nearest-occurrence-on-requested-side": same_fields(dt, exp.year, exp.month, exp.day),
            "period-day": per == "day",
        }


def _combine(date_dt, H, M):
    return date_dt.replace(hour=H, minute=M, second=0, microsecond=0)


class time_only:
    """C09: a clock time alone -> nearest occurrence on the requested side (TIMEZONE='UTC'),
    split like weekday_only."""

    name = "parser._parser.parse/time-only"
    func = "dateparser.parser._parser.parse"
    props = ["C09"]

    @classmethod
    def cases(cls, thorough=False):
        out = []
        for pf in FROM:
            for region in ("time-frame-step", "same-month", "crosses-month"):
                for hd in ((2, 1) if thorough else (2,)):
                    out.append(dict(PREFER_DATES_FROM=pf, region=region, hdigits=hd))
        return out

    @staticmethod
    def setup(inp, case):
        from dateparser.parser import _parser, tokenizer
        from pyvc.harness import build

        st, now = _settings(inp, case)
        inp.assume(And(now.year >= 2, now.year <= 9998))
        s, f_ = build(inp, [("H", case["hdigits"]), ":", ("M", 2)])
        H, M = f_["H"], f_["M"]
        inp.assume(And(H <= 23, M <= 59))
        today = _combine(now, H, M)
        pf = case["PREFER_DATES_FROM"]
        if pf == "past":
            k = Ite(now < today, -1, 0)
        elif pf == "future":
            k = Ite(now > today, 1, 0)
        else:
            k = 0
        if case["region"] == "same-month":
            inp.assume(_stays_in_month(now, k))
        elif case["region"] == "crosses-month":
            if pf == "current_period":
                inp.assume(False)
            inp.assume(Not(_stays_in_month(now, k)))
        if case["region"] == "time-frame-step":
            def f(s, settings):
                po = _parser(tokenizer(s).tokenize(), settings)
                d = po._results()
                return po._correct_for_time_frame(d, None), "day"
        else:
            f = _parser.parse
        return f, (s, st), {}, dict(now=now, k=k, H=H, M=M, today=today)

    @staticmethod
    def post(case, g, out):
        if not out.ok:
            return {"parses": False}
        now, k = g["now"], g["k"]
        dt, per = out.value
        exp = _shift_days(g["today"], k)
        pf = case["PREFER_DATES_FROM"]
        res = {
            "parses": True,
            "clock-time-preserved": And(dt.hour == g["H"], dt.minute == g["M"], dt.second == 0,
                                        dt.microsecond == 0),
            "nearest-occurrence-on-requested-side": same_fields(
                dt, exp.year, exp.month, exp.day, g["H"], g["M"]),
            "period-day": per == "day",
        }
        if pf == "past":
            res["not-after-reference"] = exp <= now
        elif pf == "future":
            res["not-before-reference"] = exp >= now
        return res

    @classmethod
    def _drop_empty(cls, cases):
        return [c for c in cases if not (c["region"] == "crosses-month"
                                         and c["PREFER_DATES_FROM"] == "current_period")]


_orig_time_cases = time_only.cases.__func__
time_only.cases = classmethod(lambda cls, thorough=False: cls._drop_empty(
    _orig_time_cases(cls, thorough)))


class month_only:
    """C09: a month name alone: month preserved, result on the requested side of the reference
    time, current_period stays in the reference year; day completed per C08 (default: reference day
    clamped)."""

    name = "parser._parser.parse/month-only"
    func = "dateparser.parser._parser.parse"
    props = ["C09"]

    @classmethod
    def cases(cls, thorough=False):
        months = (MONTHS + ABBR) if thorough else ["february", "april", "dec", "january"]
        return [dict(month=m, PREFER_DATES_FROM=pf) for m in months for pf in FROM]

    @staticmethod
    def setup(inp, case):
        from dateparser.parser import _parser

        st, now = _settings(inp, case)
        # within 8 years of the range ends the leap-day repair can leave the range (C02's subject)
        inp.assume(And(now.year >= 10, now.year <= 9990))
        return _parser.parse, (case["month"], st), {}, dict(now=now)

    @staticmethod
    def post(case, g, out):
        if not out.ok:
            return {"parses": False}
        now = g["now"]
        dt, per = out.value
        mname = case["month"]
        m = (MONTHS.index(mname) if mname in MONTHS else ABBR.index(mname)) + 1
        pf = case["PREFER_DATES_FROM"]
        L = dim(dt.year, m)
        res = {
            "parses": True,
            "month-preserved": dt.month == m,
            "day=reference-day-clamped": dt.day == Ite(now.day <= L, now.day, L),
            "midnight": And(dt.hour == 0, dt.minute == 0, dt.second == 0, dt.microsecond == 0),
            "period-month": per == "month",
            # a reference day >= 29 makes "February" a leap-day request (the day is completed
            # before the side is chosen), which may move by up to 8 years: still a matching moment
            "year-within-one-of-reference": Implies(
                Not(And(m == 2, now.day >= 29)),
                And(dt.year >= now.year - 1, dt.year <= now.year + 1)),
            "year-within-eight-of-reference": And(dt.year >= now.year - 8, dt.year <= now.year + 8),
        }
        if pf == "past":
            res["not-after-reference"] = dt <= now
        elif pf == "future":
            res["not-before-reference"] = dt >= now
        else:
            res["stays-in-reference-year"] = dt.year == now.year
        return res


class day_month:
    """C09: day and month without a year: both preserved, requested side of the reference time;
    29 February lands in a leap year on that side."""

    name = "parser._parser.parse/day-month"
    func = "dateparser.parser._parser.parse"
    props = ["C09"]

    @classmethod
    def cases(cls, thorough=False):
        months = (MONTHS + ABBR) if thorough else ["february", "november", "jan"]
        return [dict(month=m, PREFER_DATES_FROM=pf, daydigits=nd)
                for m in months for pf in FROM for nd in (1, 2)]

    @staticmethod
    def setup(inp, case):
        from dateparser.parser import _parser
        from pyvc.harness import build

        st, now = _settings(inp, case)
        inp.assume(And(now.year >= 10, now.year <= 9990))
        s, f = build(inp, [("D", case["daydigits"]), " ", case["month"]])
        return _parser.parse, (s, st), {}, dict(now=now, D=f["D"])

    @staticmethod
    def post(case, g, out):
        now, D = g["now"], g["D"]
        mname = case["month"]
        m = (MONTHS.index(mname) if mname in MONTHS else ABBR.index(mname)) + 1
        maxd = 29 if m == 2 else dim(2001, m)
        valid = And(D >= 1, D <= maxd)
        if not out.ok:
            return {"valid=>parses": Not(valid)}
        dt, per = out.value
        pf = case["PREFER_DATES_FROM"]
        leapday = And(D == 29, m == 2)
        res = {
            "valid=>parses": True,
            "valid=>day-and-month-preserved": Implies(valid, And(dt.month == m, dt.day == D)),
            "valid=>midnight": Implies(valid, And(dt.hour == 0, dt.minute == 0, dt.second == 0,
                                                  dt.microsecond == 0)),
            "valid=>period-day": Implies(valid, per == "day"),
        }
        if pf == "past":
            res["valid=>not-after-reference"] = Implies(valid, dt <= now)
            res["valid=>latest-such-date"] = Implies(And(valid, Not(leapday)),
                                                     dt.year >= now.year - 1)
        elif pf == "future":
            res["valid=>not-before-reference"] = Implies(valid, dt >= now)
            res["valid=>earliest-such-date"] = Implies(And(valid, Not(leapday)),
                                                       dt.year <= now.year + 1)
        else:
            res["valid=>stays-in-reference-year"] = Implies(
                And(valid, Or(Not(leapday), isleap(now.year))), dt.year == now.year)
        res["leap-day=>leap-year-within-8"] = Implies(
            And(valid, leapday), And(isleap(dt.year), dt.year >= now.year - 8,
                                     dt.year <= now.year + 8))
        return res


class two_digit_year:
    """C09: two-digit year, reference year in 1970..2067: month and day preserved, year congruent
    to the written one, requested side of the reference time (29 February excluded: the century
    shift may have no such date)."""

    name = "parser._parser.parse/two-digit-year"
    func = "dateparser.parser._parser.parse"
    props = ["C09"]

    @classmethod
    def cases(cls, thorough=False):
        lay = [(1, 2), (2, 2)] if not thorough else [(1, 1), (1, 2), (2, 1), (2, 2)]
        return [dict(PREFER_DATES_FROM=pf, mdigits=a, ddigits=b, DATE_ORDER="MDY")
                for pf in FROM for (a, b) in lay]

    @staticmethod
    def setup(inp, case):
        from dateparser.parser import _parser
        from pyvc.harness import build

        st, now = _settings(inp, case)
        inp.assume(And(now.year >= 1970, now.year <= 2067))
        s, f = build(inp, [("m", case["mdigits"]), "/", ("D", case["ddigits"]), "/", ("Y", 2)])
        return _parser.parse, (s, st), {}, dict(now=now, f=f)

    @staticmethod
    def post(case, g, out):
        now, f = g["now"], g["f"]
        m, D, YY = f["m"], f["D"], f["Y"]
        valid = And(m >= 1, m <= 12, D >= 1, D <= dim(2001, m))  # 29 February excluded
        if not out.ok:
            return {"valid=>parses": Not(valid)}
        dt, per = out.value
        pf = case["PREFER_DATES_FROM"]
        res = {
            "valid=>parses": True,
            "valid=>day-and-month-preserved": Implies(valid, And(dt.month == m, dt.day == D)),
            "valid=>year-congruent": Implies(valid, (dt.year - YY) % 100 == 0),
            "valid=>period-day": Implies(valid, per == "day"),
        }
        pivot = Ite(YY <= 68, 2000 + YY, 1900 + YY)
        if pf == "past":
            res["valid=>not-after-reference"] = Implies(valid, dt <= now)
            res["valid=>latest-such-year"] = Implies(valid, dt.year >= now.year - 100)
        elif pf == "future":
            res["valid=>not-before-reference"] = Implies(valid, dt >= now)
            res["valid=>earliest-such-year"] = Implies(valid, dt.year <= now.year + 100)
        else:
            res["valid=>pivot-year"] = Implies(valid, dt.year == pivot)
        return res


class weekday_only_within_month(weekday_only):
    """C05's kernel: the weekday-only clause where the seven-day window stays inside the month
    (reference days 8..24 never cross), and the 'D <month> YYYY' clause via parse_incomplete."""

    name = "parser._parser.parse/weekday-only-within-month"
    props = ["C05"]

    @classmethod
    def cases(cls, thorough=False):
        return [c for c in weekday_only.cases(thorough) if c["region"] != "crosses-month"
                and c["PREFER_DATES_FROM"] == "current_period"]


CONTRACTS += [weekday_only, weekday_only_within_month, time_only, month_only, day_month,
              two_digit_year]


# ---------------------------------------------------------------------------------------------------
# C07: DATE_ORDER decides numeric dates

ORDERS = ["DMY", "DYM", "MDY", "MYD", "YDM", "YMD"]
SEPS = {"dash": "-", "slash": "/", "dot": ".", "space": " "}


class numeric_order:
    """C07 kernel: three numeric fields, the year written with four digits: the supplied DATE_ORDER
    decides day / month / year whenever that reading is a valid date; optional HH:MM suffix."""

    name = "parser._parser.parse/numeric-order"
    func = "dateparser.parser._parser.parse"
    props = ["C07"]

    @classmethod
    def cases(cls, thorough=False):
        out = []
        for o in ORDERS:
            for sep in SEPS:
                for lay in ((2, 2), (1, 1), (1, 2), (2, 1)):
                    out.append(dict(DATE_ORDER=o, sep=sep, n1=lay[0], n2=lay[1], time=False))
                if thorough or sep in ("dot", "space"):
                    out.append(dict(DATE_ORDER=o, sep=sep, n1=2, n2=2, time=True))
        return out

    @staticmethod
    def template(case):
        o, sep = case["DATE_ORDER"], SEPS[case["sep"]]
        small = [case["n1"], case["n2"]]
        tpl = []
        for i, letter in enumerate(o):
            if i:
                tpl.append(sep)
            if letter == "Y":
                tpl.append(("Y", 4))
            else:
                tpl.append((letter, small.pop(0)))
        if case["time"]:
            tpl += [" ", ("H", 2), ":", ("T", 2)]
        return tpl

    @staticmethod
    def setup(inp, case):
        from dateparser.parser import _parser
        from pyvc.harness import build

        st, now = _settings(inp, case)
        s, f = build(inp, numeric_order.template(case))
        return _parser.parse, (s, st), {}, dict(now=now, f=f)

    @staticmethod
    def post(case, g, out):
        f = g["f"]
        Y, m, D = f["Y"], f["M"], f["D"]
        valid = And(Y >= 1, m >= 1, m <= 12, D >= 1, D <= dim(Y, m))
        H = T = 0
        if case["time"]:
            H, T = f["H"], f["T"]
            valid = And(valid, H <= 23, T <= 59)
        if not out.ok:
            return {"valid-reading=>parses": Not(valid)}
        dt, per = out.value
        return {
            "valid-reading=>parses": True,
            "valid-reading=>fields-by-DATE_ORDER": Implies(valid, same_fields(dt, Y, m, D, H, T)),
            "valid-reading=>period-day": Implies(valid, per == "day"),
        }


class resolve_date_order:
    """C07: the order tables: every key's list is its letters spelled out, its string the same
    letters as %d/%m/%y (pins the tables, not only the lookup)."""

    name = "parser.resolve_date_order"
    func = "dateparser.parser.resolve_date_order"
    props = ["C07"]

    @staticmethod
    def cases():
        return [dict(order=o, lst=l) for o in ORDERS for l in (True, False)]

    @staticmethod
    def setup(inp, case):
        from dateparser.parser import resolve_date_order as f

        return f, (case["order"],), {"lst": case["lst"]}, {}

    @staticmethod
    def post(case, g, out):
        names = {"D": "day", "M": "month", "Y": "year"}
        dirs = {"D": "%d", "M": "%m", "Y": "%y"}
        if not out.ok:
            return {"no-exception": False}
        if case["lst"]:
            return {"no-exception": True,
                    "list-spells-the-order": out.value == [names[c] for c in case["order"]]}
        return {"no-exception": True,
                "string-spells-the-order": out.value == "".join(dirs[c] for c in case["order"])}


CONTRACTS += [numeric_order, resolve_date_order]


# ---------------------------------------------------------------------------------------------------
# C01: standard absolute formats round-trip (kernel on the canonical strings of the English front end)

def _frac_us(f, n):
    """value of an n-digit fraction in microseconds"""
    return f * (10 ** (6 - n))


class absolute_formats:
    """C01 kernel: ISO-8601 / RFC-2822 / English month forms, as handed to the absolute parser by the
    English front end (canonical lower-case words; see the front-end stand-in), parse to exactly the
    written datetime for every digit value; preferences and the reference time are irrelevant."""

    name = "parser._parser.parse/absolute-formats"
    func = "dateparser.parser._parser.parse"
    props = ["C01"]

    FORMS = {
        # name: template (fields: Y m D H T S f; W = weekday word, B = month word)
        "iso-date": [("Y", 4), "-", ("m", 2), "-", ("D", 2)],
        "iso-hm": [("Y", 4), "-", ("m", 2), "-", ("D", 2), " ", ("H", 2), ":", ("T", 2)],
        "iso-hms": [("Y", 4), "-", ("m", 2), "-", ("D", 2), " ", ("H", 2), ":", ("T", 2), ":",
                    ("S", 2)],
        "iso-hms-f": [("Y", 4), "-", ("m", 2), "-", ("D", 2), " ", ("H", 2), ":", ("T", 2), ":",
                      ("S", 2), ".", "F"],
        "iso-hms-tzgap": [("Y", 4), "-", ("m", 2), "-", ("D", 2), " ", ("H", 2), ":", ("T", 2), ":",
                          ("S", 2), " "],
        "rfc2822": ["W", " ", ("D", 2), " ", "B", " ", ("Y", 4), " ", ("H", 2), ":", ("T", 2), ":",
                    ("S", 2)],
        "rfc2822-tzgap": ["W", " ", ("D", 2), " ", "B", " ", ("Y", 4), " ", ("H", 2), ":", ("T", 2),
                          ":", ("S", 2), " "],
        "month-d-y": ["B", " ", ("D", "n"), " ", ("Y", 4)],
        "d-month-y": [("D", "n"), " ", "B", " ", ("Y", 4)],
        "w-month-d-y": ["W", " ", "B", " ", ("D", "n"), " ", ("Y", 4)],
        "w-d-month-y": ["W", " ", ("D", "n"), " ", "B", " ", ("Y", 4)],
        "month-d-y-hm": ["B", " ", ("D", "n"), " ", ("Y", 4), " ", ("H", 2), ":", ("T", 2)],
        "month-d-y-hms": ["B", " ", ("D", "n"), " ", ("Y", 4), " ", ("H", 2), ":", ("T", 2), ":",
                          ("S", 2)],
        "d-month-y-hms-f": [("D", "n"), " ", "B", " ", ("Y", 4), " ", ("H", 2), ":", ("T", 2), ":",
                            ("S", 2), ".", "F"],
        "month-d-y-12h": ["B", " ", ("D", "n"), " ", ("Y", 4), " ", ("I", "h"), ":", ("T", 2), " ",
                          "P"],
        "ctime": ["W", " ", "B", " ", ("D", "n"), " ", ("H", 2), ":", ("T", 2), ":", ("S", 2), " ",
                  ("Y", 4)],
    }

    @classmethod
    def cases(cls, thorough=False):
        out = []
        months = (MONTHS if thorough else ["february", "november"])
        wdays = (DAYS if thorough else ["tuesday"])
        for form, tpl in cls.FORMS.items():
            has_b = "B" in tpl
            has_w = "W" in tpl
            has_f = "F" in tpl
            has_n = any(isinstance(p, tuple) and p[1] == "n" for p in tpl)
            has_p = "P" in tpl
            for mo in (months if has_b else [None]):
                for wd in (wdays if has_w else [None]):
                    for fd in ((range(1, 7) if thorough else (1, 3, 6)) if has_f else [None]):
                        for nd in ((1, 2) if has_n else [None]):
                            for ap in (("am", "pm") if has_p else [None]):
                                for hd in ((1, 2) if has_p else [None]):
                                    c = dict(form=form)
                                    if mo:
                                        c["month"] = mo
                                    if wd:
                                        c["weekday"] = wd
                                    if fd:
                                        c["fdigits"] = fd
                                    if nd:
                                        c["daydigits"] = nd
                                    if ap:
                                        c["ampm"] = ap
                                        c["hdigits"] = hd
                                    out.append(c)
        # preferences are irrelevant to complete dates: all 27 combinations on two representative forms
        for pd in PREFS:
            for pm in PREFS:
                for pf in FROM:
                    if (pd, pm, pf) == ("current", "current", "current_period"):
                        continue
                    for form in ("iso-hm", "rfc2822"):
                        c = dict(form=form, PREFER_DAY_OF_MONTH=pd, PREFER_MONTH_OF_YEAR=pm,
                                 PREFER_DATES_FROM=pf)
                        if form == "rfc2822":
                            c.update(month="february", weekday="tuesday")
                        out.append(c)
        return out

    @classmethod
    def template(cls, case):
        tpl = []
        for p in cls.FORMS[case["form"]]:
            if p == "B":
                tpl.append(case["month"])
            elif p == "W":
                tpl.append(case["weekday"])
            elif p == "F":
                tpl.append(("f", case["fdigits"]))
            elif p == "P":
                tpl.append(case["ampm"])
            elif isinstance(p, tuple) and p[1] == "n":
                tpl.append((p[0], case["daydigits"]))
            elif isinstance(p, tuple) and p[1] == "h":
                tpl.append((p[0], case["hdigits"]))
            else:
                tpl.append(p)
        return tpl

    @staticmethod
    def setup(inp, case):
        from dateparser.parser import _parser
        from pyvc.harness import build

        st, now = _settings(inp, case, DATE_ORDER="MDY")
        s, f = build(inp, absolute_formats.template(case))
        return _parser.parse, (s, st), {}, dict(now=now, f=f)

    @staticmethod
    def post(case, g, out):
        f = g["f"]
        Y, D = f["Y"], f["D"]
        if "month" in case:
            mn = case["month"]
            m = (MONTHS.index(mn) if mn in MONTHS else ABBR.index(mn)) + 1
            mvalid = True
        else:
            m = f["m"]
            mvalid = And(m >= 1, m <= 12)
        T = f.get("T", 0)
        S = f.get("S", 0)
        us = _frac_us(f["f"], case["fdigits"]) if "f" in f else 0
        if "I" in f:
            h12 = f["I"]
            hvalid = And(h12 >= 1, h12 <= 12)
            H = Ite(h12 == 12, 0, h12) + (12 if case["ampm"] == "pm" else 0)
        else:
            H = f.get("H", 0)
            hvalid = H <= 23
        valid = And(Y >= 1, mvalid, D >= 1, D <= dim(Y, m), hvalid, T <= 59, S <= 59)
        if not out.ok:
            return {"valid=>parses": Not(valid)}
        dt, per = out.value
        return {
            "valid=>parses": True,
            "valid=>exactly-the-written-datetime": Implies(valid, same_fields(dt, Y, m, D, H, T, S,
                                                                              us)),
            "valid=>period-day": Implies(valid, per == "day"),
            "valid=>naive": Implies(valid, dt.tzinfo is None),
        }


CONTRACTS += [absolute_formats]


class time_only_zone:
    """C09 "TIMEZONE settings for the time-only form": `_correct_for_time_frame` with TIMEZONE a
    tz-database zone (abstract in the proof).  The reference time is a UTC wall clock; the named clock
    time is read in the zone, *with the offset in force at that named wall clock*; 'past' steps a day
    back iff the reference lies before that instant, 'future' a day forward iff after it."""

    name = "parser._parser._correct_for_time_frame/time-only-in-a-zone"
    func = "dateparser.parser._parser._correct_for_time_frame"
    props = ["C09"]

    @staticmethod
    def cases(thorough=False):
        return [dict(PREFER_DATES_FROM=pf, TIMEZONE=z) for pf in ("past", "future", "current_period")
                for z in ("pytz", "static")]

    @staticmethod
    def setup(inp, case):
        from contracts.c_tz import Env
        from dateparser.parser import _parser, tokenizer
        from pyvc.harness import build, make_settings

        env = Env(inp, {"ZoneA": case["TIMEZONE"]})
        now = inp.datetime("now", lo_year=10 if inp.symbolic else 1971, hi_year=9990 if inp.symbolic else 2037)
        st = make_settings(RELATIVE_BASE=now, TIMEZONE=env.name("ZoneA"),
                           PREFER_DATES_FROM=case["PREFER_DATES_FROM"])
        s, f_ = build(inp, [("H", 2), ":", ("M", 2)])
        H, M = f_["H"], f_["M"]
        inp.assume(And(H <= 23, M <= 59))

        def f(s, settings):
            po = _parser(tokenizer(s).tokenize(), settings)
            d = po._results()
            return po._correct_for_time_frame(d, None)

        return f, (s, st), {}, dict(now=now, H=H, M=M, env=env)

    @staticmethod
    def post(case, g, out):
        from contracts.c_tz import _wall_us

        if not out.ok:
            return {"no-exception": False}
        now, env = g["now"], g["env"]
        dt = out.value
        today = _combine(now, g["H"], g["M"])
        cand = env.instant(env.zone("ZoneA"), today)  # the named wall clock of the reference's date
        n_us = _wall_us(now)
        pf = case["PREFER_DATES_FROM"]
        if pf == "past":
            k = Ite(n_us < cand, -1, 0)
        elif pf == "future":
            k = Ite(n_us > cand, 1, 0)
        else:
            k = 0
        exp = _shift_days(today, k)
        return {"no-exception": True,
                "clock-time-preserved": And(dt.hour == g["H"], dt.minute == g["M"]),
                "day-decided-with-the-offset-in-force-at-the-named-time": same_fields(
                    dt, exp.year, exp.month, exp.day, g["H"], g["M"])}

    @staticmethod
    def witnesses(case, model):
        import datetime as _d

        import pytz

        from contracts.c_tz import CATALOGUE_PYTZ

        out = []
        if case["TIMEZONE"] != "pytz":
            return out
        for year in (2021, 2024):
            for zi, zname in enumerate(CATALOGUE_PYTZ):
                z = pytz.timezone(zname)
                tts, infos = getattr(z, "_utc_transition_times", []), getattr(z, "_transition_info", [])
                for i, t in enumerate(tts):
                    if t.year != year or i == 0:
                        continue
                    o1, o2 = infos[i - 1][0], infos[i][0]
                    if o2 <= o1:
                        continue
                    wall = t + o1 - _d.timedelta(minutes=30)  # half an hour before the skipped hour
                    c = wall - o1
                    for now in (c - _d.timedelta(minutes=20), c + (o2 - o1) / 2 - _d.timedelta(minutes=50)):
                        if now.date() != wall.date():
                            continue
                        vals = dict(model)
                        vals.update({"idx_ZoneA": zi, "now_y": now.year, "now_m": now.month, "now_d": now.day,
                                     "now_H": now.hour, "now_M": now.minute, "now_S": 0, "now_us": 0,
                                     "H0": wall.hour // 10, "H1": wall.hour % 10,
                                     "M0": wall.minute // 10, "M1": wall.minute % 10})
                        out.append(vals)
        return out


CONTRACTS += [time_only_zone]
