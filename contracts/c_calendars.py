"""Contracts: dateparser/calendars (C15): non_gregorian_parser kernel on Latinised skeletons.

The converters are uninterpreted (pyvc.extcal): the obligation is that the written (year, month, day)
reach the reference conversion unchanged and its result, with the written clock time, is returned.
"""
from pyvc.spec import And, Implies, Ite, Not, Or, same_fields

JALALI_MONTHS = ["Farvardin", "Ordibehesht", "Khordad", "Tir", "Mordad", "Shahrivar", "Mehr", "Aban",
                 "Azar", "Dey", "Bahman", "Esfand"]
RANGE = {"jalali": (1200, 1500), "hijri": (1343, 1500)}
CAL = {"jalali": "persian", "hijri": "hijri"}


def _parser_cls(which):
    if which == "jalali":
        from dateparser.calendars.jalali_parser import jalali_parser

        return jalali_parser
    from dateparser.calendars.hijri_parser import hijri_parser

    return hijri_parser


FORMS = {
    "ymd-slash": [("Y", 4), "/", ("M", 2), "/", ("D", 2)],
    "ymd-dash": [("Y", 4), "-", ("M", 2), "-", ("D", 2)],
    "ymd-slash-time": [("Y", 4), "/", ("M", 2), "/", ("D", 2), " ", ("H", 2), ":", ("T", 2)],
    "dmy-dash": [("D", 2), "-", ("M", 2), "-", ("Y", 4)],
    "d-month-y": [("D", 2), " ", "B", " ", ("Y", 4)],
    "d1-month-y": [("D", 1), " ", "B", " ", ("Y", 4)],
    "weekday-d-month-y-time": ["Sunday ", ("D", 2), " ", "B", " ", ("Y", 4), " ", ("H", 2), ":",
                               ("T", 2)],
    # "any clock time in the string preserved": seconds, fractions, 12-hour clock
    "ymd-slash-hms": [("Y", 4), "/", ("M", 2), "/", ("D", 2), " ", ("H", 2), ":", ("T", 2), ":", ("S", 2)],
    "ymd-dash-hms-f": [("Y", 4), "-", ("M", 2), "-", ("D", 2), " ", ("H", 2), ":", ("T", 2), ":", ("S", 2),
                       ".", ("f", 6)],
    "dmy-dash-12h": [("D", 2), "-", ("M", 2), "-", ("Y", 4), " ", ("I", 2), ":", ("T", 2), " ", "P"],
    # one-digit month and day
    "ymd-slash-1digit": [("Y", 4), "/", ("M", 1), "/", ("D", 1)],
    "dmy-dash-1digit-month": [("D", 2), "-", ("M", 1), "-", ("Y", 4)],
}
# 12-hour markers: Latin for both calendars, the Arabic words for Hijri
MARKERS = {"jalali": [("am", 0), ("pm", 12)],
           "hijri": [("am", 0), ("pm", 12), ("\u0635\u0628\u0627\u062d\u0627\u064b", 0),
                     ("\u0645\u0633\u0627\u0621\u064b", 12)]}


class calendar_parse:
    name = "calendars.non_gregorian_parser.parse"
    func = "dateparser.calendars.non_gregorian_parser.parse"
    props = ["C15"]

    @classmethod
    def cases(cls, thorough=False):
        out = []
        for which in ("jalali", "hijri"):
            for form, tpl in FORMS.items():
                if "B" in tpl:
                    if which == "hijri":
                        continue
                    months = JALALI_MONTHS if thorough else ["Farvardin", "Mehr", "Esfand"]
                    for mo in months:
                        out.append(dict(calendar=which, form=form, month=mo))
                elif "P" in tpl:
                    for mk, add in MARKERS[which]:
                        out.append(dict(calendar=which, form=form, marker=mk, pm=add))
                else:
                    out.append(dict(calendar=which, form=form))
        return out

    @staticmethod
    def setup(inp, case):
        from pyvc.harness import build, make_settings

        cls = _parser_cls(case["calendar"])
        tpl = [case["month"] if p == "B" else case["marker"] if p == "P" else p
               for p in FORMS[case["form"]]]
        s, f = build(inp, tpl)
        st = make_settings()
        if case["form"].startswith("dmy-dash"):
            st = make_settings(DATE_ORDER="DMY")
        return cls.parse, (s, st), {}, dict(f=f)

    @staticmethod
    def post(case, g, out):
        from pyvc import extcal

        f = g["f"]
        cal = CAL[case["calendar"]]
        Y, D = f["Y"], f["D"]
        M = (JALALI_MONTHS.index(case["month"]) + 1) if "month" in case else f["M"]
        lo, hi = RANGE[case["calendar"]]
        T, S, us = f.get("T", 0), f.get("S", 0), f.get("f", 0)
        if "I" in f:
            hvalid = And(f["I"] >= 1, f["I"] <= 12)
            H = Ite(f["I"] == 12, 0, f["I"]) + case["pm"]
        else:
            H = f.get("H", 0)
            hvalid = H <= 23
        valid = And(Y >= lo, Y <= hi, M >= 1, M <= 12, D >= 1,
                    D <= extcal.spec_month_length(cal, Y, Ite(And(M >= 1, M <= 12), M, 1)),
                    hvalid, T <= 59, S <= 59)
        if case["calendar"] == "hijri":
            # the statement quantifies over days 1..29/30; the reference table's three 31-day
            # months (1345-05, 1348-11, 1349-11) are outside it (day 31 is refused: observation)
            valid = And(valid, D <= 30)
        if not out.ok:
            return {"valid=>parses": Not(valid)}
        dt, per = out.value
        gy, gm, gd = extcal.spec_to_gregorian(cal, Y, Ite(And(M >= 1, M <= 12), M, 1),
                                              Ite(And(D >= 1, D <= 31), D, 1))
        return {
            "valid=>parses": True,
            "valid=>reference-conversion-of-the-written-date": Implies(
                valid, same_fields(dt, gy, gm, gd, H, T, S, us)),
            "valid=>period-day": Implies(valid, per == "day"),
        }


def _month_end_witnesses(case, model):
    """real month-end dates (per the reference converters) for a counter-model over the
    uninterpreted calendar functions"""
    from pyvc import extcal

    cal = CAL[case["calendar"]]
    lo, hi = RANGE[case["calendar"]]
    months = [JALALI_MONTHS.index(case["month"]) + 1] if "month" in case else [12, 7]
    out = []
    nd = 1 if case["form"] == "d1-month-y" else 2
    for mth in months:
        for y in range(lo, hi + 1):
            if case["calendar"] == "hijri" and (y + mth) % 5:
                continue
            L = int(extcal.spec_month_length(cal, y, mth))
            if L >= 10 ** nd:
                continue
            vals = dict(model)
            for i, ch in enumerate(str(y).zfill(4)):
                vals["Y%d" % i] = int(ch)
            for i, ch in enumerate(str(mth).zfill(2)):
                vals["M%d" % i] = int(ch)
            for i, ch in enumerate(str(L).zfill(nd)):
                vals["D%d" % i] = int(ch)
            for k in ("H0", "H1", "T0", "T1"):
                if k in vals:
                    vals[k] = 1
            out.append(vals)
    # leap-year month ends (the longer February-like month) first
    out.sort(key=lambda v: -(v["D0"] * 10 + v.get("D1", 0)))
    return out


calendar_parse.witnesses = staticmethod(_month_end_witnesses)
calendar_parse.witness_cap = 400


class two_digit_year:
    name = "calendars.handle_two_digit_year"
    func = "dateparser.calendars.*.handle_two_digit_year"
    props = ["C15"]

    @staticmethod
    def cases():
        return [dict(calendar="jalali"), dict(calendar="hijri")]

    @staticmethod
    def setup(inp, case):
        cls = _parser_cls(case["calendar"])
        obj = cls.__new__(cls)
        y = inp.int("yy", 0, 99)
        return obj.handle_two_digit_year, (y,), {}, dict(y=y)

    @staticmethod
    def post(case, g, out):
        if not out.ok:
            return {"no-exception": False}
        y, r = g["y"], out.value
        pivot = 60 if case["calendar"] == "jalali" else 89
        return {"no-exception": True,
                "century-pivot": r == Ite(y > pivot, 1300 + y, 1400 + y),
                "congruent": (r - y) % 100 == 0}


CONTRACTS = [calendar_parse, two_digit_year]
