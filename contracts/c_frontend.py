"""C01 end to end through the English front end (proof part, no assumed contract in between).

`DateDataParser(languages=['en']).get_date_data(s)` is executed symbolically from the caller's
string: sanitize_date, the English locale's applicability test and translation (simplifications,
dictionary split, numeral translation), the parser chain of `_DateLocaleParser._parse` (timestamp,
relative, absolute), strip_braces / pop_tz_offset_from_string, the tokenizer and `_parser`.  The
strings are the *surface* renderings a user writes ("Tue, 15 Nov 2011 14:05:59", "2011-11-15T14:05",
"Nov. 5, 2011"), the words literal, every digit symbolic; the reference time is symbolic.

The written values are assumed valid *before* the call (the statement quantifies over real dates),
which is also what keeps the path count small.  What is not covered here: autodetection (every
locale loaded) - that stays with the stand-ins `front_canon_C01` / `front_en_abs`.
"""
from pyvc.cal import dim
from pyvc.spec import And, Implies, Ite, Not, Or

from .c_parser import ABBR, DAYS, DAYS_ABBR, FROM, MONTHS, PREFS, _frac_us, same_fields

# surface templates: W/B are replaced by the case's weekday/month rendering, F by the fraction
FORMS = {
    "iso-date": [("Y", 4), "-", ("m", 2), "-", ("D", 2)],
    "iso-hm": [("Y", 4), "-", ("m", 2), "-", ("D", 2), " ", ("H", 2), ":", ("T", 2)],
    "iso-hms": [("Y", 4), "-", ("m", 2), "-", ("D", 2), " ", ("H", 2), ":", ("T", 2), ":", ("S", 2)],
    "iso-T-hm": [("Y", 4), "-", ("m", 2), "-", ("D", 2), "T", ("H", 2), ":", ("T", 2)],
    "iso-T-hms": [("Y", 4), "-", ("m", 2), "-", ("D", 2), "T", ("H", 2), ":", ("T", 2), ":", ("S", 2)],
    "iso-hms-f": [("Y", 4), "-", ("m", 2), "-", ("D", 2), " ", ("H", 2), ":", ("T", 2), ":", ("S", 2),
                  ".", "F"],
    "iso-T-hms-f": [("Y", 4), "-", ("m", 2), "-", ("D", 2), "T", ("H", 2), ":", ("T", 2), ":",
                    ("S", 2), ".", "F"],
    "rfc2822": ["W", ", ", ("D", 2), " ", "B", " ", ("Y", 4), " ", ("H", 2), ":", ("T", 2), ":",
                ("S", 2)],
    "month-d-comma-y": ["B", " ", ("D", 2), ", ", ("Y", 4)],
    "month-d-y": ["B", " ", ("D", 1), " ", ("Y", 4)],
    "d-month-y": [("D", 2), " ", "B", " ", ("Y", 4)],
    "w-comma-month-d-comma-y": ["W", ", ", "B", " ", ("D", 2), ", ", ("Y", 4)],
    "month-d-comma-y-hm": ["B", " ", ("D", 2), ", ", ("Y", 4), " ", ("H", 2), ":", ("T", 2)],
    "d-month-y-hms": [("D", 2), " ", "B", " ", ("Y", 4), " ", ("H", 2), ":", ("T", 2), ":", ("S", 2)],
    "month-d-comma-y-12h": ["B", " ", ("D", 2), ", ", ("Y", 4), " ", ("I", 2), ":", ("T", 2), " ", "P"],
    "ctime": ["W", " ", "B", " ", ("D", 2), " ", ("H", 2), ":", ("T", 2), ":", ("S", 2), " ",
              ("Y", 4)],
}

# (month number, rendering) / weekday renderings used in the quick tier
Q_MONTHS = [(11, "Nov"), (2, "February"), (9, "Sept."), (5, "May"), (12, "DECEMBER")]
Q_WDAYS = ["Tue", "Friday"]


def _month_renderings(thorough):
    if not thorough:
        return Q_MONTHS
    out = []
    for i, (full, ab) in enumerate(zip(MONTHS, ABBR)):
        out += [(i + 1, full.title()), (i + 1, ab.title()), (i + 1, full.upper())]
        if ab != full:
            out.append((i + 1, ab.title() + "."))
    return out


def _wday_renderings(thorough):
    if not thorough:
        return Q_WDAYS
    return [d.title() for d in DAYS] + [d.title() for d in DAYS_ABBR]


class front_end_en_absolute:
    name = "date.DateDataParser.get_date_data/en-standard-formats-end-to-end"
    func = "dateparser.date.DateDataParser.get_date_data"
    props = ["C01"]

    # forms whose exploration takes minutes on one core (thorough tier only)
    SLOW = ("iso-hm", "iso-T-hm", "iso-hms", "iso-T-hms", "iso-hms-f", "iso-T-hms-f", "rfc2822",
            "d-month-y-hms", "ctime")

    @classmethod
    def cases(cls, thorough=False):
        out = []
        for form, tpl in FORMS.items():
            if form in cls.SLOW and not thorough:
                continue
            months = _month_renderings(thorough) if "B" in tpl else [None]
            if "B" in tpl and form not in ("month-d-comma-y", "d-month-y"):
                months = months[:2] if not thorough else months[::17]
            wdays = _wday_renderings(thorough) if "W" in tpl else [None]
            if "W" in tpl and not (thorough and form == "w-comma-month-d-comma-y"):
                wdays = wdays[:2] if thorough else wdays[:1]
            for mo in months:
                for wd in wdays:
                    for fd in (((1, 2, 3, 4, 5, 6) if thorough else (3, 6)) if "F" in tpl else [None]):
                        for ap in (("AM", "pm") if "P" in tpl else [None]):
                            c = dict(form=form)
                            if mo:
                                c["month"], c["month_text"] = mo
                            if wd:
                                c["weekday_text"] = wd
                            if fd:
                                c["fdigits"] = fd
                            if ap:
                                c["ampm"] = ap
                            out.append(c)
        # the PREFER_* settings are irrelevant to complete dates
        for pd in PREFS:
            for pm in PREFS:
                for pf in FROM:
                    if (pd, pm, pf) == ("current", "current", "current_period"):
                        continue
                    third = (PREFS.index(pd) + PREFS.index(pm) + FROM.index(pf)) % 3 == 0
                    if not thorough and not third:
                        continue
                    out.append(dict(form="iso-date", PREFER_DAY_OF_MONTH=pd,
                                    PREFER_MONTH_OF_YEAR=pm, PREFER_DATES_FROM=pf))
                    if thorough and third:
                        out.append(dict(form="iso-hm", PREFER_DAY_OF_MONTH=pd,
                                        PREFER_MONTH_OF_YEAR=pm, PREFER_DATES_FROM=pf))
                    out.append(dict(form="month-d-comma-y", month=2, month_text="Feb",
                                    PREFER_DAY_OF_MONTH=pd, PREFER_MONTH_OF_YEAR=pm,
                                    PREFER_DATES_FROM=pf))
        return out

    @staticmethod
    def template(case):
        tpl = []
        for p in FORMS[case["form"]]:
            if p == "B":
                tpl.append(case["month_text"])
            elif p == "W":
                tpl.append(case["weekday_text"])
            elif p == "F":
                tpl.append(("f", case["fdigits"]))
            elif p == "P":
                tpl.append(case["ampm"])
            else:
                tpl.append(p)
        return tpl

    @staticmethod
    def written(case, f):
        """(validity, Y, m, D, H, T, S, us) of the written fields"""
        Y, D = f["Y"], f["D"]
        if "month" in case:
            m, mvalid = case["month"], True
        else:
            m = f["m"]
            mvalid = And(m >= 1, m <= 12)
        T, S = f.get("T", 0), f.get("S", 0)
        us = _frac_us(f["f"], case["fdigits"]) if "f" in f else 0
        if "I" in f:
            h12 = f["I"]
            hvalid = And(h12 >= 1, h12 <= 12)
            H = Ite(h12 == 12, 0, h12) + (12 if case["ampm"].lower() == "pm" else 0)
        else:
            H = f.get("H", 0)
            hvalid = H <= 23
        valid = And(Y >= 1, mvalid, D >= 1, D <= dim(Y, m), hvalid, T <= 59, S <= 59)
        return valid, Y, m, D, H, T, S, us

    @staticmethod
    def setup(inp, case):
        import collections

        from dateparser.date import DateDataParser
        from pyvc.harness import build, make_settings

        now = inp.datetime("now")
        kw = dict(RELATIVE_BASE=now, TIMEZONE="UTC")
        for k in ("PREFER_DAY_OF_MONTH", "PREFER_MONTH_OF_YEAR", "PREFER_DATES_FROM"):
            if k in case:
                kw[k] = case[k]
        st = make_settings(**kw)
        s, f = build(inp, front_end_en_absolute.template(case))
        w = front_end_en_absolute.written(case, f)
        # requires: the string writes a real date and time (the statement's quantifier)
        inp.assume(w[0])
        parser = DateDataParser.__new__(DateDataParser)
        parser._settings = st
        parser.try_previous_locales = False
        parser.use_given_order = False
        parser.languages = ["en"]
        parser.locales = None
        parser.region = None
        parser.detect_languages_function = None
        parser.previous_locales = collections.OrderedDict()

        def run(string):
            r = parser.get_date_data(string)
            return r.date_obj, r.period, r.locale

        return run, (s,), {}, dict(f=f, w=w)

    @staticmethod
    def post(case, g, out):
        valid, Y, m, D, H, T, S, us = g["w"]
        if not out.ok:
            return {"no-exception": False}
        dt, per, loc = out.value
        if dt is None:
            return {"no-exception": True, "recognised": False}
        return {
            "no-exception": True,
            "recognised": True,
            "exactly-the-written-datetime": same_fields(dt, Y, m, D, H, T, S, us),
            "period-day": per == "day",
            "naive": dt.tzinfo is None,
            "locale-en": loc == "en",
        }


CONTRACTS = [front_end_en_absolute]
