"""C01 end to end through the English front end (proof part, no assumed contract in between).

`DateDataParser(languages=['en']).get_date_data(s)` is executed symbolically from the caller's
string: sanitize_date, the English locale's applicability test and translation (simplifications,
dictionary split, numeral translation), the parser chain of `_DateLocaleParser._parse` (timestamp,
relative, absolute), strip_braces / pop_tz_offset_from_string, the tokenizer and `_parser`.  The
strings are the *surface* renderings a user writes ("Tue, 15 Nov 2011 14:05:59", "2011-11-15T14:05",
"Nov. 5, 2011"), the words literal, every digit symbolic; the reference time is symbolic.

The written values are assumed valid *before* the call (the statement quantifies over real dates),
which is also what keeps the path count small.  Autodetection (languages=None) is covered too: the
loader yields the locales in priority order, English first, and stops at the first success.
"""
from pyvc.cal import dim
from pyvc.spec import And, Implies, Ite, Not, Or

from .c_parser import ABBR, DAYS, DAYS_ABBR, FROM, MONTHS, PREFS, _frac_us, same_fields

# surface templates: W/B are replaced by the case's weekday/month rendering, F by the fraction
FORMS = {
    "iso-date": [("Y", 4), "-", ("m", 2), "-", ("D", 2)],
    "iso-hm": [("Y", 4), "-", ("m", 2), "-", ("D", 2), " ", ("H", 2), ":", ("T", 2)],
    "iso-hms": [("Y", 4), "-", ("m", 2), "-", ("D", 2), " ", ("H", 2), ":", ("T", 2), ":", ("S", 2)],
    "iso-T-hm": [("Y", 4), "-", ("m", 2), "-", ("D", 2), "T", ("H", 2), ":", ("T", 2)],
    "iso-T-hms": [("Y", 4), "-", ("m", 2), "-", ("D", 2), "T", ("H", 2), ":", ("T", 2), ":", ("S", 2)],
    # (forms with fractional seconds are not here: one case did not finish within 90 minutes on one
    #  core; they stay with the kernel contract `absolute-formats` and the stand-in `front_en_abs`)
    "rfc2822": ["W", ", ", ("D", 2), " ", "B", " ", ("Y", 4), " ", ("H", 2), ":", ("T", 2), ":",
                ("S", 2)],
    "month-d-comma-y": ["B", " ", ("D", 2), ", ", ("Y", 4)],
    "month-d-y": ["B", " ", ("D", 1), " ", ("Y", 4)],
    "d-month-y": [("D", 2), " ", "B", " ", ("Y", 4)],
    "w-comma-month-d-comma-y": ["W", ", ", "B", " ", ("D", 2), ", ", ("Y", 4)],
    "month-d-comma-y-hm": ["B", " ", ("D", 2), ", ", ("Y", 4), " ", ("H", 2), ":", ("T", 2)],
    "d-month-y-hms": [("D", 2), " ", "B", " ", ("Y", 4), " ", ("H", 2), ":", ("T", 2), ":", ("S", 2)],
    "month-d-comma-y-12h": ["B", " ", ("D", 2), ", ", ("Y", 4), " ", ("I", 2), ":", ("T", 2), " ", "P"],
    "ctime": ["W", " ", "B", " ", ("D", 2), " ", ("H", 2), ":", ("T", 2), ":", ("S", 2), " ",
              ("Y", 4)],
}

# (month number, rendering) / weekday renderings used in the quick tier
Q_MONTHS = [(11, "Nov"), (2, "February"), (9, "Sept."), (5, "May"), (12, "DECEMBER")]
Q_WDAYS = ["Tue", "Friday"]


def _month_renderings(thorough):
    if not thorough:
        return Q_MONTHS
    out = []
    for i, (full, ab) in enumerate(zip(MONTHS, ABBR)):
        out += [(i + 1, full.title()), (i + 1, ab.title()), (i + 1, full.upper())]
        if ab != full:
            out.append((i + 1, ab.title() + "."))
    return out


def _wday_renderings(thorough):
    if not thorough:
        return Q_WDAYS
    return [d.title() for d in DAYS] + [d.title() for d in DAYS_ABBR]


class front_end_en_absolute:
    name = "date.DateDataParser.get_date_data/en-standard-formats-end-to-end"
    func = "dateparser.date.DateDataParser.get_date_data"
    props = ["C01"]

    # forms whose exploration takes minutes on one core (thorough tier only)
    SLOW = ("iso-hm", "iso-T-hm", "iso-hms", "iso-T-hms", "rfc2822",
            "d-month-y-hms", "ctime")

    @classmethod
    def cases(cls, thorough=False):
        out = []
        for form, tpl in FORMS.items():
            if form in cls.SLOW and not thorough:
                continue
            months = _month_renderings(thorough) if "B" in tpl else [None]
            if "B" in tpl and form not in ("month-d-comma-y", "d-month-y"):
                months = months[:2] if not thorough else months[::17]
            wdays = _wday_renderings(thorough) if "W" in tpl else [None]
            if "W" in tpl and not (thorough and form == "w-comma-month-d-comma-y"):
                wdays = wdays[:2] if thorough else wdays[:1]
            for mo in months:
                for wd in wdays:
                    for fd in (((1, 2, 3, 4, 5, 6) if thorough else (3, 6)) if "F" in tpl else [None]):
                        for ap in (("AM", "pm") if "P" in tpl else [None]):
                            c = dict(form=form)
                            if mo:
                                c["month"], c["month_text"] = mo
                            if wd:
                                c["weekday_text"] = wd
                            if fd:
                                c["fdigits"] = fd
                            if ap:
                                c["ampm"] = ap
                            out.append(c)
        # autodetection (languages=None): the locales are tried in the library's priority order,
        # English first; one case per form and month/weekday rendering (quick: first rendering)
        seen = set()
        for c in list(out):
            key = (c["form"], c.get("ampm")) if not thorough else (c["form"], c.get("ampm"),
                                                                     c.get("month_text"))
            if key in seen or (thorough and c["form"] in cls.SLOW and c.get("month_text") not in (None, "Nov", "January")):
                continue
            seen.add(key)
            out.append(dict(c, languages="autodetect"))
        # the PREFER_* settings are irrelevant to complete dates
        for pd in PREFS:
            for pm in PREFS:
                for pf in FROM:
                    if (pd, pm, pf) == ("current", "current", "current_period"):
                        continue
                    third = (PREFS.index(pd) + PREFS.index(pm) + FROM.index(pf)) % 3 == 0
                    if not thorough and not third:
                        continue
                    out.append(dict(form="iso-date", PREFER_DAY_OF_MONTH=pd,
                                    PREFER_MONTH_OF_YEAR=pm, PREFER_DATES_FROM=pf))
                    if thorough and third:
                        out.append(dict(form="iso-hm", PREFER_DAY_OF_MONTH=pd,
                                        PREFER_MONTH_OF_YEAR=pm, PREFER_DATES_FROM=pf))
                    out.append(dict(form="month-d-comma-y", month=2, month_text="Feb",
                                    PREFER_DAY_OF_MONTH=pd, PREFER_MONTH_OF_YEAR=pm,
                                    PREFER_DATES_FROM=pf))
        return out

    @staticmethod
    def template(case):
        tpl = []
        for p in FORMS[case["form"]]:
            if p == "B":
                tpl.append(case["month_text"])
            elif p == "W":
                tpl.append(case["weekday_text"])
            elif p == "F":
                tpl.append(("f", case["fdigits"]))
            elif p == "P":
                tpl.append(case["ampm"])
            else:
                tpl.append(p)
        return tpl

    @staticmethod
    def written(case, f):
        """(validity, Y, m, D, H, T, S, us) of the written fields"""
        Y, D = f["Y"], f["D"]
        if "month" in case:
            m, mvalid = case["month"], True
        else:
            m = f["m"]
            mvalid = And(m >= 1, m <= 12)
        T, S = f.get("T", 0), f.get("S", 0)
        us = _frac_us(f["f"], case["fdigits"]) if "f" in f else 0
        if "I" in f:
            h12 = f["I"]
            hvalid = And(h12 >= 1, h12 <= 12)
            H = Ite(h12 == 12, 0, h12) + (12 if case["ampm"].lower() == "pm" else 0)
        else:
            H = f.get("H", 0)
            hvalid = H <= 23
        valid = And(Y >= 1, mvalid, D >= 1, D <= dim(Y, m), hvalid, T <= 59, S <= 59)
        return valid, Y, m, D, H, T, S, us

    @staticmethod
    def setup(inp, case):
        import collections

        from dateparser.date import DateDataParser
        from pyvc.harness import build, make_settings

        now = inp.datetime("now")
        kw = dict(RELATIVE_BASE=now, TIMEZONE="UTC")
        for k in ("PREFER_DAY_OF_MONTH", "PREFER_MONTH_OF_YEAR", "PREFER_DATES_FROM"):
            if k in case:
                kw[k] = case[k]
        st = make_settings(**kw)
        s, f = build(inp, front_end_en_absolute.template(case))
        w = front_end_en_absolute.written(case, f)
        # requires: the string writes a real date and time (the statement's quantifier)
        inp.assume(w[0])
        parser = DateDataParser.__new__(DateDataParser)
        parser._settings = st
        parser.try_previous_locales = False
        parser.use_given_order = False
        parser.languages = None if case.get("languages") == "autodetect" else ["en"]
        parser.locales = None
        parser.region = None
        parser.detect_languages_function = None
        parser.previous_locales = collections.OrderedDict()

        def run(string):
            r = parser.get_date_data(string)
            return r.date_obj, r.period, r.locale

        return run, (s,), {}, dict(f=f, w=w)

    @staticmethod
    def post(case, g, out):
        valid, Y, m, D, H, T, S, us = g["w"]
        if not out.ok:
            return {"no-exception": False}
        dt, per, loc = out.value
        if dt is None:
            return {"no-exception": True, "recognised": False}
        return {
            "no-exception": True,
            "recognised": True,
            "exactly-the-written-datetime": same_fields(dt, Y, m, D, H, T, S, us),
            "period-day": per == "day",
            "naive": dt.tzinfo is None,
            "locale-en": loc == "en",
        }


CONTRACTS = [front_end_en_absolute]


# ---------------------------------------------------------------------------------------------------
# The kernel contracts of c_parser, re-stated at DateDataParser.get_date_data(languages=['en']): the
# same cases, inputs and postconditions, with the English front end (sanitize_date, Locale('en')
# applicability and translation, the parser chain) executed in front of `_parser` instead of being
# assumed to hand the string through.  "Not recognised" (date_obj None) plays the part of the
# kernel's ValueError.


def _fe_parse(s, st):
    import collections

    from dateparser.date import DateDataParser

    parser = DateDataParser.__new__(DateDataParser)
    parser._settings = st
    parser.try_previous_locales = False
    parser.use_given_order = False
    parser.languages = ["en"]
    parser.locales = None
    parser.region = None
    parser.detect_languages_function = None
    parser.previous_locales = collections.OrderedDict()
    r = parser.get_date_data(s)
    if r.date_obj is None:
        raise ValueError("not recognised through the English front end")
    return r.date_obj, r.period


def through_front_end(kernel, props, pick=None, pick_thorough=None):
    from dateparser.parser import _parser

    class K:
        name = "date.DateDataParser.get_date_data/en-front-end>" + kernel.name.split("parse/")[-1]
        func = "dateparser.date.DateDataParser.get_date_data"

        @staticmethod
        def cases(thorough=False):
            try:
                cs = kernel.cases(thorough)
            except TypeError:
                cs = kernel.cases()
            sel = pick_thorough if (thorough and pick_thorough is not None) else pick
            return [c for i, c in enumerate(cs) if sel is None or sel(i, c)]

        @staticmethod
        def setup(inp, case):
            import sys

            mod = sys.modules[kernel.__module__]
            hooked = hasattr(mod, "KERNEL_PARSE")
            if hooked:
                mod.KERNEL_PARSE = _fe_parse
            try:
                f, args, kwargs, ghost = kernel.setup(inp, case)
            finally:
                if hooked:
                    mod.KERNEL_PARSE = None
            if f == _parser.parse:
                f = _fe_parse
            elif not (hooked and getattr(f, "__name__", "") == "run2"):
                raise AssertionError("kernel contract does not call _parser.parse directly")
            return f, args, kwargs, ghost

        post = staticmethod(kernel.post)

    K.props = list(props)
    K.__name__ = "fe_" + kernel.__name__
    K.__qualname__ = K.__name__
    return K


def _build_wrapped():
    from . import c_parser as P

    out = []
    # C07: every order, the separators '/' '.' (quick) or all four (thorough), plain two-digit fields
    out.append(through_front_end(
        P.numeric_order, ["C07"],
        pick=lambda i, c: c.get("n1") == 2 and c.get("n2") == 2 and c.get("sep") in ("slash", "dot")
        and not c.get("time"),
        # ('-' with the year last costs 20+ minutes per case on one core: the trailing '-YYYY' also
        #  feeds the UTC-offset grammar; those layouts stay with the kernel contract and with
        #  `pop_tz_offset_from_string/no-zone-invented-numeric`)
        pick_thorough=lambda i, c: not c.get("time") and not (
            c.get("sep") == "dash" and c.get("DATE_ORDER") in ("DMY", "MDY"))))
    # C08: completion of month-year / year-only forms
    out.append(through_front_end(P.parse_incomplete, ["C08"], pick=lambda i, c: i % 6 == 0 and c.get("form") != "full-time",
                                 pick_thorough=lambda i, c: i % 6 in (0, 3) and c.get("form") != "full-time"))
    # C09: weekday / month / day-month / two-digit-year forms (no clock time: cheap through the front end)
    out.append(through_front_end(P.weekday_only, ["C09"],
                                 pick=lambda i, c: c["region"] != "time-frame-step" and i % 2 == 0,
                                 pick_thorough=lambda i, c: c["region"] != "time-frame-step"))
    out.append(through_front_end(P.month_only, ["C09"], pick=lambda i, c: i % 4 == 0))
    out.append(through_front_end(P.day_month, ["C09"], pick=lambda i, c: i % 4 == 0))
    out.append(through_front_end(P.two_digit_year, ["C09"], pick=lambda i, c: i % 3 == 0))
    # C10: strictness through the front end (date-only families; the numeric layouts with the year last)
    from . import c_strict as S

    nt = lambda c: "time" not in c.get("family", "")
    words = lambda c: nt(c) and not c.get("family", "").startswith("numeric-")
    out.append(through_front_end(S.strictness_only_filters, ["C10"],
                                 pick=lambda i, c: words(c) and i % 5 == 0,
                                 pick_thorough=lambda i, c: nt(c) and i % 2 == 0))
    out.append(through_front_end(S.strict_result_independent_of_now, ["C10"],
                                 pick=lambda i, c: words(c),
                                 pick_thorough=lambda i, c: nt(c)))
    out.append(through_front_end(S.strict_needs_three_tokens, ["C10"],
                                 pick=lambda i, c: nt(c) and i % 3 == 0,
                                 pick_thorough=lambda i, c: nt(c)))
    out.append(through_front_end(S.two_token_now_independence, ["C10"],
                                 pick=lambda i, c: nt(c) and i % 9 == 0,
                                 pick_thorough=lambda i, c: nt(c) and i % 2 == 0))
    return out


WRAPPED = _build_wrapped()
for _k in WRAPPED:
    globals()[_k.__name__] = _k
CONTRACTS += WRAPPED


class fe_relative_expression:
    """C04 through the English front end: 'N units ago' / 'in N units' / bare 'N units' as a user
    writes them (plural unit words), every count digit and the reference time symbolic; the
    postcondition is the kernel contract's (independent calendar arithmetic, range, period)."""

    name = "date.DateDataParser.get_date_data/en-front-end>relative-expression"
    func = "dateparser.date.DateDataParser.get_date_data"
    props = ["C04"]

    @staticmethod
    def cases(thorough=False):
        from .c_fresh import relative_expression as R

        # (the bare form 'N units' is not in the statement; past the range ends it falls through to
        # the absolute parser, which reads '2 hours' as February - observed, not claimed)
        cs = [c for c in R.cases(thorough) if not c.get("clock") and c["dir"] != "bare"]
        if thorough:
            return [c for i, c in enumerate(cs) if i % 2 == 0 or len(c["units"]) > 1]
        return [c for i, c in enumerate(cs) if (len(c["units"]) == 1 and c["digits"] == [1] and i % 4 == 0)
                or (len(c["units"]) == 2 and i % 8 == 0 and c["units"] != ["month", "week"])]

    @staticmethod
    def setup(inp, case):
        import collections

        from dateparser.date import DateDataParser
        from pyvc.harness import build, make_settings

        from .c_fresh import relative_expression as R

        b = inp.datetime("b")
        st = make_settings(RELATIVE_BASE=b, TIMEZONE="UTC", PREFER_DATES_FROM=case["PREFER_DATES_FROM"])
        tpl = [p + "s" if (isinstance(p, str) and p in case["units"]) else p for p in R.template(case)]
        s, f = build(inp, tpl)
        parser = DateDataParser.__new__(DateDataParser)
        parser._settings = st
        parser.try_previous_locales = False
        parser.use_given_order = False
        parser.languages = ["en"]
        parser.locales = None
        parser.region = None
        parser.detect_languages_function = None
        parser.previous_locales = collections.OrderedDict()
        return parser.get_date_data, (s,), {}, dict(b=b, f=f)

    @staticmethod
    def post(case, g, out):
        from .c_fresh import relative_expression as R

        return R.post(case, g, out)


CONTRACTS += [fe_relative_expression]
