"""Contracts for C18 (white space / digit scripts) and the index-safety part of C17.

These obligations are decided by evaluation over finite domains (every Unicode decimal digit, every
regex constant's character classes, small-scope token lists), not by the SMT solver: the functions
involved build or apply regular expressions over unbounded strings, which the engine does not reach.
"""
from pyvc.spec import And, Implies, Not, Or


def nd_chars():
    """every Unicode decimal digit with its value"""
    import sys
    import unicodedata

    out = []
    for cp in range(sys.maxunicode + 1):
        ch = chr(cp)
        if unicodedata.category(ch) == "Nd":
            out.append((ch, unicodedata.decimal(ch)))
    return out


WS_FAMILY = [" ", "\t", "\n", "\xa0", "\r"]


class regex_class_uniformity:
    """every character class of every sanitising regex treats each Unicode decimal digit exactly as
    it treats the ASCII digit of the same value (so rewriting the digits cannot change a match)."""

    name = "date.sanitize-regexes/digit-class-uniformity"
    func = "dateparser.date.RE_* / utils.strip_braces"
    props = ["C18"]
    concrete_samples = 1

    @staticmethod
    def cases():
        # every RE_* constant the module defines on this run (a renamed or merged constant changes
        # the obligation set, which the baseline comparison reports)
        import dateparser.date as D

        names = sorted(n for n in dir(D) if n.startswith("RE_") and hasattr(getattr(D, n), "pattern"))
        return [dict(regex=n) for n in names + ["strip_braces", "NUMERAL_PATTERN"]]

    @staticmethod
    def setup(inp, case):
        import re
        import re._constants as C
        import re._parser as P

        import dateparser.date as D
        import dateparser.languages.locale as L

        n = case["regex"]
        if n == "strip_braces":
            pattern, flags = r"[{}()<>\[\]]+", 0
        elif n == "NUMERAL_PATTERN":
            pattern, flags = L.NUMERAL_PATTERN.pattern, re.U
        else:
            rx = getattr(D, n)
            pattern, flags = rx.pattern, (re.I if rx.flags & 2 else 0) | (re.M if rx.flags & 8 else 0)

        def classes(tree, out):
            for op, av in tree:
                if op in (C.IN,):
                    out.append(("set", av))
                elif op in (C.LITERAL, C.NOT_LITERAL):
                    out.append(("lit" if op == C.LITERAL else "notlit", av))
                elif op == C.CATEGORY:
                    out.append(("set", [(C.CATEGORY, av)]))
                elif op in (C.MAX_REPEAT, C.MIN_REPEAT):
                    classes(av[2], out)
                elif op == C.SUBPATTERN:
                    classes(av[3], out)
                elif op == C.BRANCH:
                    for alt in av[1]:
                        classes(alt, out)
                elif op in (C.ASSERT, C.ASSERT_NOT):
                    classes(av[1], out)
            return out

        def run():
            from pyvc.rx import _set_has

            tree = P.parse(pattern, flags)
            bad = []
            nd = nd_chars()
            for kind, av in classes(tree, []):
                for ch, val in nd:
                    ascii_d = "0123456789"[val]
                    if kind == "set":
                        a, b = _set_has(av, ch, flags), _set_has(av, ascii_d, flags)
                    elif kind == "lit":
                        # a literal ASCII digit in a pattern would single out one script
                        a, b = (ord(ch) == av), (ord(ascii_d) == av)
                    else:
                        a, b = (ord(ch) != av), (ord(ascii_d) != av)
                    if a != b:
                        bad.append((kind, repr(av)[:60], "U+%04X" % ord(ch)))
                        break
            return bad

        return run, (), {}, {}

    @staticmethod
    def post(case, g, out):
        if not out.ok:
            return {"pattern-parsed": False}
        return {"pattern-parsed": True,
                "no-class-separates-a-digit-script-from-ASCII-digits": out.value == []}


class translate_numerals:
    """Locale._translate_numerals: every maximal run of decimal digits (any script) becomes the
    ASCII digits of the same values, same length (leading zeros kept); nothing else changes.
    Exhaustive over scripts (every Nd block) x a fixed set of digit runs and surroundings."""

    name = "locale.Locale._translate_numerals"
    func = "dateparser.languages.locale.Locale._translate_numerals"
    props = ["C18"]
    concrete_samples = 1

    @staticmethod
    def cases():
        return [dict(part=i) for i in range(4)]

    @staticmethod
    def setup(inp, case):
        from dateparser.languages.locale import Locale

        loc = Locale.__new__(Locale)
        nd = nd_chars()
        zeros = [ch for ch, v in nd if v == 0]
        runs = ["07", "2015", "0099", "5", "00", "10", "0530", "1234567890", "0001"]
        frames = ["%s", "12 Jan %s", "+%s", "%s:%s", "x%sy", "%s.%s.%s", " %s ", "UTC+%s:00"]

        def run():
            bad = []
            n = 0
            for zi, z in enumerate(zeros):
                if zi % 4 != case["part"]:
                    continue
                base = ord(z)
                conv = lambda r: "".join(chr(base + int(c)) for c in r)
                for r in runs:
                    for fr in frames:
                        k = fr.count("%s")
                        native = fr % tuple([conv(r)] * k)
                        want = fr % tuple([r] * k)
                        got = loc._translate_numerals(native)
                        n += 1
                        if got != want:
                            bad.append((native, got, want))
                        if loc._translate_numerals(want) != want:
                            bad.append((want, "ASCII input changed", want))
            return n, bad[:5]

        return run, (), {}, {}

    @staticmethod
    def post(case, g, out):
        if not out.ok:
            return {"no-exception": False}
        n, bad = out.value
        return {"no-exception": True, "scripts-covered": n > 500,
                "digit-runs-become-ASCII-with-the-same-length": bad == []}


class get_date_data_dataflow:
    """DateDataParser.get_date_data reads the caller's string only through sanitize_date (when no
    format matches): decided on the function's AST."""

    name = "date.DateDataParser.get_date_data/string-only-through-sanitize_date"
    func = "dateparser.date.DateDataParser.get_date_data"
    props = ["C18"]
    concrete_samples = 1

    @staticmethod
    def cases():
        return [{}]

    @staticmethod
    def setup(inp, case):
        import ast
        import inspect
        import textwrap

        import dateparser.date as D

        def run():
            src = textwrap.dedent(inspect.getsource(D.DateDataParser.get_date_data))
            fn = ast.parse(src).body[0]
            uses_before, reassigned, uses_after = [], False, []
            for stmt in fn.body:
                if isinstance(stmt, ast.Expr) and isinstance(getattr(stmt, "value", None),
                                                             ast.Constant):
                    continue
                if (isinstance(stmt, ast.Assign) and len(stmt.targets) == 1
                        and isinstance(stmt.targets[0], ast.Name)
                        and stmt.targets[0].id == "date_string"):
                    call = stmt.value
                    ok = (isinstance(call, ast.Call) and isinstance(call.func, ast.Name)
                          and call.func.id == "sanitize_date" and len(call.args) == 1
                          and isinstance(call.args[0], ast.Name)
                          and call.args[0].id == "date_string")
                    reassigned = ok
                    continue
                for n in ast.walk(stmt):
                    if isinstance(n, ast.Name) and n.id == "date_string":
                        (uses_after if reassigned else uses_before).append(
                            ast.unparse(stmt).split("\n")[0][:70])
            return uses_before, reassigned, uses_after

        return run, (), {}, {}

    @staticmethod
    def post(case, g, out):
        if not out.ok:
            return {"scan-ran": False}
        before, reassigned, after = out.value
        allowed = ("if not isinstance(date_string, str):", "res = parse_with_formats(date_string")
        return {
            "scan-ran": True,
            "string-is-replaced-by-sanitize_date(string)": reassigned,
            "raw-string-used-only-for-the-type-check-and-the-raw-format-attempt":
                all(u.startswith(allowed) for u in before),
            "sanitized-string-is-what-the-locales-see": len(after) >= 2,
        }


class simplify_split_align:
    """Locale._simplify_split_align (C17): for every pair of token lists up to length 4 (the two word
    splits are replaced by arbitrary lists): terminates without raising and returns two lists of
    equal length.  Small-scope exhaustive, not a proof."""

    name = "locale.Locale._simplify_split_align/small-scope"
    func = "dateparser.languages.locale.Locale._simplify_split_align"
    props = ["C17"]
    concrete_samples = 1

    @staticmethod
    def cases():
        return [dict(n_orig=a) for a in range(0, 5)]

    @staticmethod
    def setup(inp, case):
        import itertools

        from dateparser.languages.locale import Locale
        from pyvc.harness import make_settings

        st = make_settings()
        alphabet = ["a", "b", "x"]

        def run():
            bad = []
            count = 0
            for orig in itertools.product(alphabet, repeat=case["n_orig"]):
                for m in range(0, 5):
                    for simp in itertools.product(alphabet, repeat=m):
                        loc = Locale.__new__(Locale)
                        loc.shortname = "xx"
                        loc.info = {}
                        lists = [list(orig), list(simp)]
                        loc._word_split = lambda s, settings, _l=lists: _l.pop(0)
                        loc._simplify = lambda s, settings=None: s
                        count += 1
                        try:
                            o, s = loc._simplify_split_align("ignored", st)
                        except Exception as e:
                            bad.append((orig, simp, type(e).__name__))
                            continue
                        if len(o) != len(s):
                            bad.append((orig, simp, "lengths %d != %d" % (len(o), len(s))))
            return count, bad[:5], len(bad)

        return run, (), {}, {}

    @staticmethod
    def post(case, g, out):
        if not out.ok:
            return {"no-exception": False}
        count, bad, nbad = out.value
        return {"no-exception": True,
                "equal-length-token-lists-for-every-pair": nbad == 0,
                "pairs-enumerated": count > 0}


CONTRACTS = [regex_class_uniformity, translate_numerals, get_date_data_dataflow, simplify_split_align]


# white-space / trailing-colon rewritings of the property's family (each maps a template to a template)
def _ws_map(tpl, rep):
    return [p.replace(" ", rep) if isinstance(p, str) else p for p in tpl]


WS_REWRITINGS = {
    "lead": lambda t: ["  "] + t,
    "trail": lambda t: t + [" \t"],
    "trail-newline": lambda t: t + ["\n"],
    "pad": lambda t: ["  "] + t + [" \t"],
    "double": lambda t: _ws_map(t, "  "),
    "tab": lambda t: _ws_map(t, "\t"),
    "newline": lambda t: _ws_map(t, "\n"),
    "nbsp": lambda t: _ws_map(t, "\xa0"),
    "mixed": lambda t: _ws_map(t, " \xa0\t "),
    "nbsp-led-run": lambda t: _ws_map(t, "\xa0 "),
    "colon": lambda t: t + [":"],
    "colon-trail": lambda t: t + [": "],
    "colon-newline": lambda t: t + [":\n"],
    "lead-colon": lambda t: [" "] + t + [":"],
    "pad-colon-pad": lambda t: ["\t"] + t + [" : "],
    "nbsp-trail": lambda t: t + ["\xa0"],
    "colon-space-colon": lambda t: t + [": :"],
}

WS_TEMPLATES = {
    "iso-date": [("Y", 4), "-", ("m", 2), "-", ("D", 2)],
    "iso-hms": [("Y", 4), "-", ("m", 2), "-", ("D", 2), " ", ("H", 2), ":", ("T", 2), ":", ("S", 2)],
    "rfc2822": ["Tue, ", ("D", 2), " Nov ", ("Y", 4), " ", ("H", 2), ":", ("T", 2), ":", ("S", 2)],
    "month-d-comma-y": ["Sept. ", ("D", 2), ", ", ("Y", 4)],
    "d-month-y-12h": [("D", 1), " February ", ("Y", 4), " ", ("I", 2), ":", ("T", 2), " PM"],
    "numeric-dots": [("D", 2), ".", ("m", 2), ".", ("Y", 4)],
    "numeric-slashes-time": [("m", 1), "/", ("D", 1), "/", ("Y", 4), " ", ("H", 2), ":", ("T", 2)],
    "croatian": [("D", 2), ". ", ("m", 2), ". ", ("Y", 4), ". u ", ("H", 2), ":", ("T", 2)],
    "russian-year-mark": [("D", 1), " марта ", ("Y", 4), " г. ", ("H", 2), ":", ("T", 2)],
    "relative-ago": [("n", 2), " days ago"],
    "relative-in": ["in ", ("n", 1), " weeks"],
    "time-only": [("H", 1), ":", ("T", 2), " pm"],
    "weekday-on": ["on Monday ", ("D", 2), " May"],
    "epoch": [("e", 10)],
    "apostrophe-year": [("D", 2), " Jan \u2019", ("y", 2)],
    # strings that end in 'on' / carry the 'on:' prefix that RE_SANITIZE_ON removes
    "ends-in-on": [("D", 2), " Jan ", ("Y", 4), " at noon"],
    "posted-on-prefix": ["posted on: ", ("D", 2), " May ", ("Y", 4)],
    "weekday-mon": ["Mon"],
}


class sanitize_date_whitespace_invariance:
    """C18, deductive part for the string sanitiser: for every skeleton family (layout literal, every
    digit symbolic) and every white-space / trailing-colon rewriting w of the property's family,
    `sanitize_date(w(s)) == sanitize_date(s)` as strings.  With the dataflow obligation
    (`get_date_data` reads its string only through `sanitize_date` once the custom formats are out
    of the way) this gives parse(w(s)) == parse(s) for all digit values of these layouts."""

    name = "date.sanitize_date/whitespace-and-trailing-colon-invariance"
    func = "dateparser.date.sanitize_date"
    props = ["C18"]

    @staticmethod
    def cases(thorough=False):
        out = []
        for fam in WS_TEMPLATES:
            for w in WS_REWRITINGS:
                if w in ("double", "tab", "newline", "nbsp", "mixed", "nbsp-led-run") and not any(
                        isinstance(p, str) and " " in p for p in WS_TEMPLATES[fam]):
                    continue
                out.append(dict(family=fam, rewriting=w))
        return out

    @staticmethod
    def setup(inp, case):
        from dateparser.date import sanitize_date
        from pyvc.harness import build

        tpl = list(WS_TEMPLATES[case["family"]])
        s, f = build(inp, tpl)
        # w(s) is re-assembled from s's own pieces, so both strings carry the same symbolic digits
        pieces, cursor = [], 0
        for p in tpl:
            n = len(p) if isinstance(p, str) else p[1]
            pieces.append(s[cursor:cursor + n])
            cursor += n
        marked = [p if isinstance(p, str) else "@%d@" % i for i, p in enumerate(tpl)]
        t = ""
        for p in WS_REWRITINGS[case["rewriting"]](marked):
            if p.startswith("@") and p.endswith("@") and p[1:-1].isdigit():
                t = t + pieces[int(p[1:-1])]
            else:
                t = t + p

        def run(a, b):
            return sanitize_date(a), sanitize_date(b)

        return run, (s, t), {}, dict(f=f)

    @staticmethod
    def post(case, g, out):
        if not out.ok:
            return {"no-exception": False}
        a, b = out.value
        return {"no-exception": True, "same-sanitised-string": a == b}


CONTRACTS.append(sanitize_date_whitespace_invariance)
