"""Contracts for C18 (white space / digit scripts) and the index-safety part of C17.

These obligations are decided by evaluation over finite domains (every Unicode decimal digit, every
regex constant's character classes, small-scope token lists), not by the SMT solver: the functions
involved build or apply regular expressions over unbounded strings, which the engine does not reach.
"""
from pyvc.spec import And, Implies, Not, Or


def nd_chars():
    """every Unicode decimal digit with its value"""
    import sys
    import unicodedata

    out = []
    for cp in range(sys.maxunicode + 1):
        ch = chr(cp)
        if unicodedata.category(ch) == "Nd":
            out.append((ch, unicodedata.decimal(ch)))
    return out


WS_FAMILY = [" ", "\t", "\n", "\xa0", "\r"]


class regex_class_uniformity:
    """every character class of every sanitising regex treats each Unicode decimal digit exactly as
    it treats the ASCII digit of the same value (so rewriting the digits cannot change a match)."""

    name = "date.sanitize-regexes/digit-class-uniformity"
    func = "dateparser.date.RE_* / utils.strip_braces"
    props = ["C18"]
    concrete_samples = 1

    @staticmethod
    def cases():
        # every RE_* constant the module defines on this run (a renamed or merged constant changes
        # the obligation set, which the baseline comparison reports)
        import dateparser.date as D

        names = sorted(n for n in dir(D) if n.startswith("RE_") and hasattr(getattr(D, n), "pattern"))
        return [dict(regex=n) for n in names + ["strip_braces", "NUMERAL_PATTERN"]]

    @staticmethod
    def setup(inp, case):
        import re
        import re._constants as C
        import re._parser as P

        import dateparser.date as D
        import dateparser.languages.locale as L

        n = case["regex"]
        if n == "strip_braces":
            pattern, flags = r"[{}()<>\[\]]+", 0
        elif n == "NUMERAL_PATTERN":
            pattern, flags = L.NUMERAL_PATTERN.pattern, re.U
        else:
            rx = getattr(D, n)
            pattern, flags = rx.pattern, (re.I if rx.flags & 2 else 0) | (re.M if rx.flags & 8 else 0)

        def classes(tree, out):
            for op, av in tree:
                if op in (C.IN,):
                    out.append(("set", av))
                elif op in (C.LITERAL, C.NOT_LITERAL):
                    out.append(("lit" if op == C.LITERAL else "notlit", av))
                elif op == C.CATEGORY:
                    out.append(("set", [(C.CATEGORY, av)]))
                elif op in (C.MAX_REPEAT, C.MIN_REPEAT):
                    classes(av[2], out)
                elif op == C.SUBPATTERN:
                    classes(av[3], out)
                elif op == C.BRANCH:
                    for alt in av[1]:
                        classes(alt, out)
                elif op in (C.ASSERT, C.ASSERT_NOT):
                    classes(av[1], out)
            return out

        def run():
            from pyvc.rx import _set_has

            tree = P.parse(pattern, flags)
            bad = []
            nd = nd_chars()
            for kind, av in classes(tree, []):
                for ch, val in nd:
                    ascii_d = "0123456789"[val]
                    if kind == "set":
                        a, b = _set_has(av, ch, flags), _set_has(av, ascii_d, flags)
                    elif kind == "lit":
                        # a literal ASCII digit in a pattern would single out one script
                        a, b = (ord(ch) == av), (ord(ascii_d) == av)
                    else:
                        a, b = (ord(ch) != av), (ord(ascii_d) != av)
                    if a != b:
                        bad.append((kind, repr(av)[:60], "U+%04X" % ord(ch)))
                        break
            return bad

        return run, (), {}, {}

    @staticmethod
    def post(case, g, out):
        if not out.ok:
            return {"pattern-parsed": False}
        return {"pattern-parsed": True,
                "no-class-separates-a-digit-script-from-ASCII-digits": out.value == []}


class translate_numerals:
    """Locale._translate_numerals: every maximal run of decimal digits (any script) becomes the
    ASCII digits of the same values, same length (leading zeros kept); nothing else changes.
    Exhaustive over scripts (every Nd block) x a fixed set of digit runs and surroundings."""

    name = "locale.Locale._translate_numerals"
    func = "dateparser.languages.locale.Locale._translate_numerals"
    props = ["C18"]
    concrete_samples = 1

    @staticmethod
    def cases():
        return [dict(part=i) for i in range(4)]

    @staticmethod
    def setup(inp, case):
        from dateparser.languages.locale import Locale

        loc = Locale.__new__(Locale)
        nd = nd_chars()
        zeros = [ch for ch, v in nd if v == 0]
        runs = ["07", "2015", "0099", "5", "00", "10", "0530", "1234567890", "0001"]
        frames = ["%s", "12 Jan %s", "+%s", "%s:%s", "x%sy", "%s.%s.%s", " %s ", "UTC+%s:00"]

        def run():
            bad = []
            n = 0
            for zi, z in enumerate(zeros):
                if zi % 4 != case["part"]:
                    continue
                base = ord(z)
                conv = lambda r: "".join(chr(base + int(c)) for c in r)
                for r in runs:
                    for fr in frames:
                        k = fr.count("%s")
                        native = fr % tuple([conv(r)] * k)
                        want = fr % tuple([r] * k)
                        got = loc._translate_numerals(native)
                        n += 1
                        if got != want:
                            bad.append((native, got, want))
                        if loc._translate_numerals(want) != want:
                            bad.append((want, "ASCII input changed", want))
            return n, bad[:5]

        return run, (), {}, {}

    @staticmethod
    def post(case, g, out):
        if not out.ok:
            return {"no-exception": False}
        n, bad = out.value
        return {"no-exception": True, "scripts-covered": n > 500,
                "digit-runs-become-ASCII-with-the-same-length": bad == []}


class get_date_data_dataflow:
    """DateDataParser.get_date_data reads the caller's string only through sanitize_date (when no
    format matches): decided on the function's AST."""

    name = "date.DateDataParser.get_date_data/string-only-through-sanitize_date"
    func = "dateparser.date.DateDataParser.get_date_data"
    props = ["C18"]
    concrete_samples = 1

    @staticmethod
    def cases():
        return [{}]

    @staticmethod
    def setup(inp, case):
        import ast
        import inspect
        import textwrap

        import dateparser.date as D

        def run():
            src = textwrap.dedent(inspect.getsource(D.DateDataParser.get_date_data))
            fn = ast.parse(src).body[0]
            uses_before, reassigned, uses_after = [], False, []
            for stmt in fn.body:
                if isinstance(stmt, ast.Expr) and isinstance(getattr(stmt, "value", None),
                                                             ast.Constant):
                    continue
                if (isinstance(stmt, ast.Assign) and len(stmt.targets) == 1
                        and isinstance(stmt.targets[0], ast.Name)
                        and stmt.targets[0].id == "date_string"):
                    call = stmt.value
                    ok = (isinstance(call, ast.Call) and isinstance(call.func, ast.Name)
                          and call.func.id == "sanitize_date" and len(call.args) == 1
                          and isinstance(call.args[0], ast.Name)
                          and call.args[0].id == "date_string")
                    reassigned = ok
                    continue
                for n in ast.walk(stmt):
                    if isinstance(n, ast.Name) and n.id == "date_string":
                        (uses_after if reassigned else uses_before).append(
                            ast.unparse(stmt).split("\n")[0][:70])
            return uses_before, reassigned, uses_after

        return run, (), {}, {}

    @staticmethod
    def post(case, g, out):
        if not out.ok:
            return {"scan-ran": False}
        before, reassigned, after = out.value
        allowed = ("if not isinstance(date_string, str):", "res = parse_with_formats(date_string")
        return {
            "scan-ran": True,
            "string-is-replaced-by-sanitize_date(string)": reassigned,
            "raw-string-used-only-for-the-type-check-and-the-raw-format-attempt":
                all(u.startswith(allowed) for u in before),
            "sanitized-string-is-what-the-locales-see": len(after) >= 2,
        }


class simplify_split_align:
    """Locale._simplify_split_align (C17): for every pair of token lists up to length 4 (the two word
    splits are replaced by arbitrary lists): terminates without raising and returns two lists of
    equal length.  Small-scope exhaustive, not a proof."""

    name = "locale.Locale._simplify_split_align/small-scope"
    func = "dateparser.languages.locale.Locale._simplify_split_align"
    props = ["C17"]
    concrete_samples = 1

    @staticmethod
    def cases():
        return [dict(n_orig=a) for a in range(0, 5)]

    @staticmethod
    def setup(inp, case):
        import itertools

        from dateparser.languages.locale import Locale
        from pyvc.harness import make_settings

        st = make_settings()
        alphabet = ["a", "b", "x"]

        def run():
            bad = []
            count = 0
            for orig in itertools.product(alphabet, repeat=case["n_orig"]):
                for m in range(0, 5):
                    for simp in itertools.product(alphabet, repeat=m):
                        loc = Locale.__new__(Locale)
                        loc.shortname = "xx"
                        loc.info = {}
                        lists = [list(orig), list(simp)]
                        loc._word_split = lambda s, settings, _l=lists: _l.pop(0)
                        loc._simplify = lambda s, settings=None: s
                        count += 1
                        try:
                            o, s = loc._simplify_split_align("ignored", st)
                        except Exception as e:
                            bad.append((orig, simp, type(e).__name__))
                            continue
                        if len(o) != len(s):
                            bad.append((orig, simp, "lengths %d != %d" % (len(o), len(s))))
            return count, bad[:5], len(bad)

        return run, (), {}, {}

    @staticmethod
    def post(case, g, out):
        if not out.ok:
            return {"no-exception": False}
        count, bad, nbad = out.value
        return {"no-exception": True,
                "equal-length-token-lists-for-every-pair": nbad == 0,
                "pairs-enumerated": count > 0}


CONTRACTS = [regex_class_uniformity, translate_numerals, get_date_data_dataflow, simplify_split_align]
