"""Contracts: dateparser/utils/__init__.py (calendar helpers used by C08, C09, C14)."""
from pyvc.spec import And, Implies, Ite, Not, Or, dim, isleap

PREFS = ("first", "last", "current")


class get_last_day_of_month:
    name = "utils.get_last_day_of_month"
    func = "dateparser.utils.get_last_day_of_month"
    props = ["C08", "C14"]

    @staticmethod
    def cases():
        return [{}]

    @staticmethod
    def setup(inp, case):
        from dateparser.utils import get_last_day_of_month as f

        y = inp.int("year", 1, 9999)
        m = inp.int("month", 1, 12)
        return f, (y, m), {}, dict(y=y, m=m)

    @staticmethod
    def post(case, g, out):
        return {
            "no-exception": out.ok,
            "result==days-in-month": out.ok and out.value == dim(g["y"], g["m"]),
        }


class _get_leap_year:
    name = "utils._get_leap_year"
    func = "dateparser.utils._get_leap_year"
    props = ["C09", "C08"]

    @staticmethod
    def cases():
        return [{"future": True}, {"future": False}]

    @staticmethod
    def setup(inp, case):
        from dateparser.utils import _get_leap_year as f

        # requires: the caller passes a representable year; the previous leap year of years <= 4
        # does not exist (r == 0), so the past direction is stated for year >= 5
        y = inp.int("year", 1 if case["future"] else 5, 9999)
        return f, (y, case["future"]), {}, dict(y=y)

    @staticmethod
    def post(case, g, out):
        if not out.ok:
            return {"no-exception": False}
        y, r = g["y"], out.value
        step = 1 if case["future"] else -1
        k = (r - y) * step
        between = [Implies(i < k, Not(isleap(y + step * i))) for i in range(1, 8)]
        return {
            "no-exception": True,
            "result-is-leap": isleap(r),
            "strictly-on-the-requested-side-within-8": And(k >= 1, k <= 8),
            "no-leap-year-skipped": And(*between),
        }


class set_correct_day_from_settings:
    name = "utils.set_correct_day_from_settings"
    func = "dateparser.utils.set_correct_day_from_settings"
    props = ["C08", "C14"]

    @staticmethod
    def cases():
        return [{"pref": p, "current_day": c} for p in PREFS for c in ("given", "clock")]

    @staticmethod
    def setup(inp, case):
        from dateparser.utils import set_correct_day_from_settings as f
        from pyvc.harness import make_settings

        d = inp.datetime("d")
        cd = inp.int("current_day", 1, 31) if case["current_day"] == "given" else None
        st = make_settings(PREFER_DAY_OF_MONTH=case["pref"])
        return f, (d, st), {"current_day": cd}, dict(d=d, cd=cd)

    @staticmethod
    def post(case, g, out):
        if not out.ok:
            return {"no-exception": False}
        d, r, cd = g["d"], out.value, g["cd"]
        L = dim(d.year, d.month)
        res = {
            "no-exception": True,
            "only-the-day-changes": And(r.year == d.year, r.month == d.month, r.hour == d.hour,
                                        r.minute == d.minute, r.second == d.second,
                                        r.microsecond == d.microsecond),
            "day-valid-for-month": And(r.day >= 1, r.day <= L),
        }
        if case["pref"] == "first":
            res["first->1"] = r.day == 1
        elif case["pref"] == "last":
            res["last->days-in-month"] = r.day == L
        elif cd is not None:
            res["current->reference-day-clamped"] = r.day == Ite(cd <= L, cd, L)
        return res


class set_correct_month_from_settings:
    name = "utils.set_correct_month_from_settings"
    func = "dateparser.utils.set_correct_month_from_settings"
    props = ["C08", "C14"]

    @staticmethod
    def cases():
        return [{"pref": p, "current_month": c} for p in PREFS for c in ("given", "clock")]

    @staticmethod
    def setup(inp, case):
        from dateparser.utils import set_correct_month_from_settings as f
        from pyvc.harness import make_settings

        d = inp.datetime("d")
        cm = inp.int("current_month", 1, 12) if case["current_month"] == "given" else None
        st = make_settings(PREFER_MONTH_OF_YEAR=case["pref"])
        return f, (d, st), {"current_month": cm}, dict(d=d, cm=cm)

    @staticmethod
    def post(case, g, out):
        if not out.ok:
            return {"no-exception": False}
        d, r, cm = g["d"], out.value, g["cm"]
        res = {
            "no-exception": True,
            "only-the-month-changes": And(r.year == d.year, r.day == d.day, r.hour == d.hour,
                                          r.minute == d.minute, r.second == d.second,
                                          r.microsecond == d.microsecond),
            "month-valid": And(r.month >= 1, r.month <= 12, d.day <= dim(d.year, r.month)),
        }
        # the code's behaviour, exactly: the preferred month if the day fits into it, else December
        if case["pref"] == "first":
            res["first->1"] = r.month == 1  # January has 31 days: always fits
        elif case["pref"] == "last":
            res["last->12"] = r.month == 12
        elif cm is not None:
            res["current->reference-month-or-12"] = r.month == Ite(d.day <= dim(d.year, cm), cm, 12)
        return res


CONTRACTS = [get_last_day_of_month, _get_leap_year, set_correct_day_from_settings,
             set_correct_month_from_settings]
