"""Contracts: timezone pipeline (C12, C11 attach logic, C01 epoch part).

Proving mode: zone names stand for abstract zones (pyvc.harness.ZoneEnv / pyvc.zone): OFF and LOC
are arbitrary functions, so an obligation holds for every zone database.  Replay mode: the same
setup/post run on the real code with real zones from a fixed catalogue (CATALOGUE_*), unambiguous
local times only (the property's side condition).

ASSUME: pytz / zoneinfo / tzlocal behave as the zone theory says (pyvc/zone.py docstring).
"""
import datetime as _dt

from pyvc.spec import And, Implies, Ite, Not, Or

# names the two resolvers agree on: pytz names that match no entry of the library's table, and table
# names pytz does not know (EST, CET, ... exist in both with different meanings: excluded)
CATALOGUE_PYTZ = ["America/New_York", "Europe/Paris", "Asia/Kolkata", "Australia/Lord_Howe",
                  "America/St_Johns", "Pacific/Apia", "Europe/London", "Asia/Tokyo",
                  "America/Denver", "America/Sao_Paulo", "Africa/Cairo", "Asia/Kathmandu"]
CATALOGUE_STATIC = ["PST", "EDT", "IST", "AKDT", "+0530", "UTC+3", "-0330", "NZDT", "WIB", "MSK",
                    "UTC-09:00", "ACWST"]
US = 1000000
DAY = 86400 * US


def _wall_us(dt):
    from pyvc.cal import dt_wall_us

    return dt_wall_us(dt)


def _naive(dt):
    return dt.replace(tzinfo=None)


class Env:
    """dual-use zone environment"""

    def __init__(self, inp, kinds):
        self.inp = inp
        self.kinds = kinds
        if inp.symbolic:
            from pyvc.harness import ZoneEnv

            self.sym = ZoneEnv(inp, kinds)
            self.names = {n: n for n in kinds}
        else:
            self.sym = None
            self.names = {}
            for n, k in kinds.items():
                cat = CATALOGUE_PYTZ if k == "pytz" else CATALOGUE_STATIC
                self.names[n] = cat[inp.int("idx_" + n, 0, len(cat) - 1)]

    def name(self, n):
        return self.names[n]

    def zone(self, n):
        if n == "local":
            if self.sym:
                return self.sym.local
            from tzlocal import get_localzone

            return get_localzone()
        if self.sym:
            return self.sym.zone(n)
        from dateparser.utils import get_timezone_from_tz_string

        return get_timezone_from_tz_string(self.names[n])

    # spec functions -------------------------------------------------------------------------
    def instant(self, zone_obj, naive_dt):
        """UTC instant (ordinal-based microseconds) at which zone shows the naive wall clock"""
        if self.sym:
            from pyvc.zone import spec_localize

            return spec_localize(zone_obj, _wall_us(naive_dt))
        if hasattr(zone_obj, "localize"):
            try:
                aware = zone_obj.localize(naive_dt, is_dst=None)
            except TypeError:
                aware = zone_obj.localize(naive_dt)
            except Exception as e:  # gap or ambiguous: outside the property's quantifier
                from pyvc.driver import Rejected

                raise Rejected("ambiguous or non-existent local time: %r" % (e,))
        else:
            aware = naive_dt.replace(tzinfo=zone_obj)
            # zoneinfo: reject gaps/folds
            back = aware.astimezone(_dt.timezone.utc).astimezone(zone_obj)
            other = naive_dt.replace(tzinfo=zone_obj, fold=1)
            if _naive(back) != naive_dt or other.utcoffset() != aware.utcoffset():
                from pyvc.driver import Rejected

                raise Rejected("ambiguous or non-existent local time")
        return _wall_us(aware) - _td(aware.utcoffset())

    def wall_at(self, zone_obj, inst):
        """wall clock (ordinal-based microseconds) that zone shows at instant"""
        if self.sym:
            from pyvc.zone import spec_wall_in

            return spec_wall_in(zone_obj, inst)
        base = _dt.datetime(1, 1, 1, tzinfo=_dt.timezone.utc)
        try:
            aware = (base + _dt.timedelta(microseconds=inst - DAY)).astimezone(zone_obj)
        except OverflowError:
            return None
        return _wall_us(aware)


def _td(td):
    from pyvc.cal import _td_us

    return _td_us(td)


def _result_instant(dt):
    """instant of an aware result"""
    return _wall_us(dt) - _td(dt.utcoffset())


def _in_range(wall):
    if wall is None:
        return False
    return And(wall >= DAY, wall < 3652060 * DAY)


KINDS = ("pytz", "static")


class localize_timezone:
    name = "utils.localize_timezone"
    func = "dateparser.utils.localize_timezone"
    props = ["C12"]

    @staticmethod
    def cases():
        return [dict(kind=k, aware=a) for k in KINDS for a in (False, True)]

    @staticmethod
    def setup(inp, case):
        from dateparser.utils import localize_timezone as f

        env = Env(inp, {"ZoneA": case["kind"], "ZoneX": "static"})
        d = inp.datetime("d", lo_year=2 if inp.symbolic else 1950, hi_year=9998 if inp.symbolic else 2037)
        if case["aware"]:
            d = d.replace(tzinfo=env.zone("ZoneX"))
        return f, (d, env.name("ZoneA")), {}, dict(env=env, d=d)

    @staticmethod
    def post(case, g, out):
        env, d = g["env"], g["d"]
        if not out.ok:
            return {"no-exception": False}
        r = out.value
        if case["aware"]:
            return {"no-exception": True,
                    "aware-input-returned-unchanged": And(r.tzinfo is d.tzinfo,
                                                          _wall_us(r) == _wall_us(d))}
        inst = env.instant(env.zone("ZoneA"), d)
        return {
            "no-exception": True,
            "wall-clock-unchanged": _wall_us(r) == _wall_us(d),
            "aware": r.tzinfo is not None,
            "instant==localize(zone,wall)": _result_instant(r) == inst,
        }


class apply_timezone:
    name = "utils.apply_timezone"
    func = "dateparser.utils.apply_timezone"
    props = ["C12"]

    @staticmethod
    def cases():
        return [dict(target=k, source=s) for k in KINDS for s in ("naive", "pytz", "static")]

    @staticmethod
    def setup(inp, case):
        from dateparser.utils import apply_timezone as f
        from dateparser.utils import localize_timezone

        kinds = {"ZoneB": case["target"]}
        if case["source"] != "naive":
            kinds["ZoneA"] = case["source"]
        env = Env(inp, kinds)
        d = inp.datetime("d", lo_year=2 if inp.symbolic else 1950, hi_year=9998 if inp.symbolic else 2037)
        src = d
        if case["source"] != "naive":
            inst0 = env.instant(env.zone("ZoneA"), d)  # rejects ambiguous local times at replay
            src = localize_timezone(d, env.name("ZoneA"))
        return f, (src, env.name("ZoneB")), {}, dict(env=env, d=d, src=src)

    @staticmethod
    def post(case, g, out):
        env, d, src = g["env"], g["d"], g["src"]
        inst = _wall_us(d) if case["source"] == "naive" else _result_instant(src)
        wall = env.wall_at(env.zone("ZoneB"), inst)
        if not out.ok:
            return {"raises-only-OverflowError-when-out-of-range":
                    And(out.raised(OverflowError), Not(_in_range(wall)))}
        r = out.value
        return {
            "raises-only-OverflowError-when-out-of-range": True,
            "aware": r.tzinfo is not None,
            "same-instant": _result_instant(r) == inst,
            "wall-clock-in-target-zone": _wall_us(r) == wall,
        }


TZ_SETTINGS = [dict(TIMEZONE=t, TO=to, AWARE=aw)
               for t in ("local", "pytz", "static")
               for to in ("unset", "pytz", "static")
               for aw in (True, False, "default")]


def _expected(env, case, d_naive, ptz):
    """C12 spec: (instant, final zone, wall clock in the final zone, aware?)"""
    tzs = case["TIMEZONE"]
    if ptz is not None:
        zone0 = ptz
    else:
        zone0 = env.zone("local" if tzs == "local" else "ZoneA")
    inst = env.instant(zone0, d_naive)
    final = zone0
    if ptz is not None and tzs != "local":
        final = env.zone("ZoneA")
    if case["TO"] != "unset":
        final = env.zone("ZoneB")
    wall = env.wall_at(final, inst)
    aw = case["AWARE"]
    aware = True if aw is True else (False if aw is False else ptz is not None)
    return inst, final, wall, aware


def _tz_settings(inp, case, env, **extra):
    from pyvc.harness import make_settings

    kw = dict(TIMEZONE="local" if case["TIMEZONE"] == "local" else env.name("ZoneA"))
    if case["TO"] != "unset":
        kw["TO_TIMEZONE"] = env.name("ZoneB")
    if case["AWARE"] != "default":
        kw["RETURN_AS_TIMEZONE_AWARE"] = case["AWARE"]
    kw.update(extra)
    return make_settings(**kw)


def _kinds(case):
    kinds = {}
    if case["TIMEZONE"] != "local":
        kinds["ZoneA"] = case["TIMEZONE"]
    if case["TO"] != "unset":
        kinds["ZoneB"] = case["TO"]
    return kinds


def _tz_post(case, g, out, aware_rule=True):
    env, d = g["env"], g["d"]
    inst, final, wall, aware = g["expected"]
    if not out.ok:
        return {"raises-only-OverflowError-when-out-of-range":
                And(out.raised(OverflowError), Not(_in_range(wall)))}
    r = out.value
    if isinstance(r, tuple):
        r = r[0]
    res = {"raises-only-OverflowError-when-out-of-range": True,
           "wall-clock-is-the-instant-in-the-final-zone": _wall_us(r) == wall}
    if aware_rule:
        res["awareness-follows-setting"] = (r.tzinfo is not None) == aware
        if r.tzinfo is not None:
            res["aware-result-denotes-the-same-instant"] = _result_instant(r) == inst
    return res


class apply_timezone_from_settings:
    name = "utils.apply_timezone_from_settings"
    func = "dateparser.utils.apply_timezone_from_settings"
    props = ["C12"]

    @staticmethod
    def cases():
        return TZ_SETTINGS

    @staticmethod
    def setup(inp, case):
        from dateparser.utils import apply_timezone_from_settings as f

        env = Env(inp, _kinds(case))
        st = _tz_settings(inp, case, env)
        d = inp.datetime("d", lo_year=2 if inp.symbolic else 1950, hi_year=9998 if inp.symbolic else 2037)
        c2 = dict(case)
        # this function knows no string zone: the default awareness is "naive"
        exp = _expected(env, c2, d, None)
        return f, (d, st), {}, dict(env=env, d=d, expected=exp)

    @staticmethod
    def post(case, g, out):
        return _tz_post(case, g, out)


class DateParser_parse:
    """date_parser.DateParser.parse with its two callees replaced by their contracts:
    pop_tz_offset_from_string -> (string unchanged, a StaticTzInfo with an arbitrary offset | None),
    parse_method -> (an arbitrary naive datetime, 'day')."""

    name = "date_parser.DateParser.parse/tz-pipeline"
    func = "dateparser.date_parser.DateParser.parse"
    props = ["C12", "C11"]

    @staticmethod
    def cases():
        return [dict(c, ptz=p) for c in TZ_SETTINGS for p in (False, True)]

    @staticmethod
    def setup(inp, case):
        import dateparser.date_parser as DP
        from dateparser.timezone_parser import StaticTzInfo
        from pyvc import cal

        env = Env(inp, _kinds(case))
        st = _tz_settings(inp, case, env)
        d = inp.datetime("d", lo_year=2 if inp.symbolic else 1950, hi_year=9998 if inp.symbolic else 2037)
        ptz = None
        if case["ptz"]:
            off = inp.int("ptz_off", -86399, 86399)
            ptz = StaticTzInfo("PTZ", cal.mk_timedelta(off * US) if inp.symbolic
                               else _dt.timedelta(seconds=off))
        DP.pop_tz_offset_from_string = lambda s, as_offset=True: (s, ptz)
        seen = {}

        def parse_method(s, settings=None, tz=None):
            seen["tz"] = tz
            return d, "day"

        exp = _expected(env, case, d, ptz)
        return DP.date_parser.parse, ("12 march 2001", parse_method), {"settings": st}, dict(
            env=env, d=d, expected=exp, ptz=ptz, seen=seen)

    @staticmethod
    def post(case, g, out):
        res = _tz_post(case, g, out)
        if out.ok:
            res["period-passed-through"] = out.value[1] == "day"
            res["string-zone-handed-to-the-parser"] = g["seen"].get("tz") is g["ptz"]
            if case["ptz"] and case["AWARE"] != False and case["TIMEZONE"] == "local" \
                    and case["TO"] == "unset":  # noqa: E712
                r = out.value[0]
                res["C11:offset-is-the-written-one"] = _td(r.utcoffset()) == _td(
                    g["ptz"].utcoffset(None))
                res["C11:wall-clock-is-the-written-one"] = _wall_us(r) == _wall_us(g["d"])
        return res


CONTRACTS = [localize_timezone, apply_timezone, apply_timezone_from_settings, DateParser_parse]


EPOCH_US = 719163 * DAY


class get_date_from_timestamp:
    """date.get_date_from_timestamp (C01 epoch part, C12 timestamp parser): a 10-digit epoch number
    with optional 3/6 more digits (and '-' for the negative parser) is exactly that instant, with
    milli/microsecond precision, expressed per the timezone settings; anything else -> None."""

    name = "date.get_date_from_timestamp"
    func = "dateparser.date.get_date_from_timestamp"
    props = ["C01", "C12"]

    @staticmethod
    def cases():
        out = []
        for digits in (10, 13, 16):
            for negative in (False, True):
                for c in TZ_SETTINGS:
                    if negative and (c["TO"] != "unset" or c["AWARE"] != "default"):
                        continue
                    if digits == 13 and c["AWARE"] is True and c["TO"] != "unset":
                        continue
                    out.append(dict(c, digits=digits, negative=negative))
        out.append(dict(TIMEZONE="pytz", TO="unset", AWARE="default", digits=11, negative=False))
        out.append(dict(TIMEZONE="pytz", TO="unset", AWARE="default", digits=9, negative=False))
        return out

    @staticmethod
    def setup(inp, case):
        from dateparser.date import get_date_from_timestamp as f
        from pyvc.harness import build

        env = Env(inp, _kinds(case))
        st = _tz_settings(inp, case, env)
        n = case["digits"]
        tpl = (["-"] if case["negative"] else []) + [("s", min(n, 10))]
        if n >= 13:
            tpl.append(("ms", 3))
        if n >= 16:
            tpl.append(("us", 3))
        if n == 11:
            tpl.append(("x", 1))
        s, fields = build(inp, tpl)
        if inp.symbolic:
            inp.assume(fields["s"] >= 10 ** 9) if n >= 10 else None
        elif n >= 10 and fields["s"] < 10 ** 9:
            from pyvc.driver import Rejected

            raise Rejected("leading zero")
        return f, (s, st), {"negative": case["negative"]}, dict(env=env, f=fields, s=s)

    @staticmethod
    def post(case, g, out):
        env, f = g["env"], g["f"]
        if not out.ok:
            return {"no-exception": out.raised(OverflowError) and False}
        r = out.value
        if case["digits"] in (9, 11):
            return {"no-exception": True, "not-an-epoch-number=>None": r is None}
        if r is None:
            return {"no-exception": True, "epoch-number-recognised": False}
        # the written number, read as seconds.milliseconds[microseconds] with its sign
        sub = f.get("ms", 0) * 1000 + f.get("us", 0)
        magnitude = f["s"] * US + sub
        inst = EPOCH_US - magnitude if case["negative"] else EPOCH_US + magnitude
        tzs = case["TIMEZONE"]
        zone0 = env.zone("local" if tzs == "local" else "ZoneA")
        final = zone0 if case["TO"] == "unset" else env.zone("ZoneB")
        wall = env.wall_at(final, inst)
        res = {
            "no-exception": True,
            "epoch-number-recognised": True,
            "that-instant-in-the-configured-zone": _wall_us(r) == wall,
            "awareness-follows-setting": (r.tzinfo is not None) == (case["AWARE"] is True),
        }
        if r.tzinfo is not None:
            res["aware-result-denotes-the-same-instant"] = _result_instant(r) == inst
        return res


CONTRACTS += [get_date_from_timestamp]


class freshness_tz:
    """FreshnessDateDataParser.parse, timezone branch (C12 for relative dates; C04's "the base is the
    current instant expressed in TIMEZONE"): the base is RELATIVE_BASE read in the TIMEZONE zone (or the
    clock instant expressed in it), the shift is calendar arithmetic on that zone's wall clock, and the
    result denotes the instant at which the zone shows the shifted wall clock, re-expressed per
    TO_TIMEZONE; awareness per setting."""

    name = "freshness.FreshnessDateDataParser.parse/tz"
    func = "dateparser.freshness_date_parser.FreshnessDateDataParser.parse"
    props = ["C12", "C04"]

    @staticmethod
    def cases():
        out = []
        for c in TZ_SETTINGS:
            for base in ("naive", "clock"):
                for unit in ("day", "hour"):
                    if unit == "hour" and (c["TO"] == "static" or c["AWARE"] is False):
                        continue
                    out.append(dict(c, base=base, unit=unit, dir="ago" if unit == "day" else "in"))
        return out

    @staticmethod
    def setup(inp, case):
        import dateparser.freshness_date_parser as F
        from pyvc.harness import build

        env = Env(inp, _kinds(case))
        kw = {}
        b = None
        clock_utc = None
        if case["base"] == "naive":
            b = inp.datetime("b", lo_year=10 if inp.symbolic else 1950,
                             hi_year=9990 if inp.symbolic else 2037)
            kw["RELATIVE_BASE"] = b
        else:
            clock_utc = inp.datetime("clock", lo_year=10 if inp.symbolic else 1971,
                                     hi_year=9990 if inp.symbolic else 2037)
            _install_clock(inp, clock_utc)
        st = _tz_settings(inp, case, env, **kw)
        tpl = (["in "] if case["dir"] == "in" else []) + [("n", 1), " ", case["unit"]] + (
            [" ago"] if case["dir"] == "ago" else [])
        s, f = build(inp, tpl)
        F.pop_tz_offset_from_string = lambda string, as_offset=True: (string, None)
        return F.freshness_date_parser.parse, (s, st), {}, dict(env=env, b=b, clock=clock_utc, f=f)

    @staticmethod
    def post(case, g, out):
        env, f = g["env"], g["f"]
        if not out.ok:
            return {"no-exception": False}
        r, period = out.value
        if r is None:
            return {"no-exception": True, "recognised": False}
        zone0 = env.zone("local" if case["TIMEZONE"] == "local" else "ZoneA")
        if case["base"] == "naive":
            w0 = _wall_us(g["b"])
        else:
            w0 = env.wall_at(zone0, _wall_us(g["clock"]))  # the clock instant expressed in TIMEZONE
        sign = 1 if case["dir"] == "in" else -1
        step = DAY if case["unit"] == "day" else 3600 * US
        w1 = w0 + sign * f["n"] * step
        # calendar arithmetic on the base's wall clock (C04), for every unit
        inst = env.instant(zone0, _as_naive(w1))
        final = zone0 if case["TO"] == "unset" else env.zone("ZoneB")
        wall = env.wall_at(final, inst)
        aware = case["AWARE"] is True
        res = {
            "no-exception": True,
            "recognised": True,
            "wall-clock-is-the-shifted-instant-in-the-final-zone": _wall_us(r) == wall,
            "awareness-follows-setting": (r.tzinfo is not None) == aware,
        }
        if r.tzinfo is not None:
            res["aware-result-denotes-that-instant"] = _result_instant(r) == inst
        return res


def _dst_witnesses(case, model):
    """real zones and bases around a real offset change, for a counter-model over abstract zones"""
    import pytz

    out = []
    n = 7 if case["unit"] == "day" else 5
    half = _dt.timedelta(days=3) if case["unit"] == "day" else _dt.timedelta(hours=2)
    pre = "b" if case["base"] == "naive" else "clock"
    for year in (2021, 1987):
        for zi, zname in enumerate(CATALOGUE_PYTZ):
            z = pytz.timezone(zname)
            for t in getattr(z, "_utc_transition_times", []):
                if t.year != year:
                    continue
                wall = pytz.utc.localize(t).astimezone(z).replace(tzinfo=None)
                if case["base"] == "clock":
                    wall = t  # the clock is given in UTC
                b = wall - half if case["dir"] == "in" else wall + half
                b = b.replace(minute=30, second=0, microsecond=0)
                vals = dict(model)
                vals.update({"idx_ZoneA": zi, "idx_ZoneB": (zi + 3) % len(CATALOGUE_PYTZ), "n0": n,
                             pre + "_y": b.year, pre + "_m": b.month, pre + "_d": b.day,
                             pre + "_H": b.hour, pre + "_M": b.minute, pre + "_S": 0,
                             pre + "_us": 0})
                out.append(vals)
    return out


freshness_tz.witnesses = staticmethod(_dst_witnesses)


def _as_naive(wall_us):
    """a naive datetime-like carrying a wall clock (dual use)"""
    if isinstance(wall_us, int):
        base = _dt.datetime(1, 1, 1)
        return base + _dt.timedelta(microseconds=wall_us - DAY)
    from pyvc.cal import SDateTime

    return SDateTime.from_wall(wall_us)


def _install_clock(inp, clock_utc):
    """datetime.now(tz) = the one named instant `clock_utc`, expressed in tz"""
    if inp.symbolic:
        from pyvc import instrument, zone
        from pyvc.cal import with_tz

        aware = with_tz(clock_utc, _dt.timezone.utc)

        def now(tz=None):
            if tz is None:
                raise instrument.Unsupported("datetime.now() without tz in the relative parser")
            return zone.astimezone(aware, tz)

        instrument.ALWAYS[(_dt.datetime, "now")] = now
        return
    fixed = clock_utc.replace(tzinfo=_dt.timezone.utc)

    class FixedClock(_dt.datetime):
        @classmethod
        def now(cls, tz=None):
            return fixed.astimezone(tz) if tz is not None else fixed.replace(tzinfo=None)

    import dateparser.freshness_date_parser as F

    F.datetime = FixedClock


CONTRACTS += [freshness_tz]


class tz_name_resolution:
    """utils.get_timezone_from_tz_string (shared by the timestamp parser, localize_timezone,
    apply_timezone_from_settings and the relative parser): a tz-database key resolves to that
    database zone (so 'Etc/GMT+3' is UTC-3, whatever its name looks like); any other string the
    library's own table lists resolves to a fixed zone with exactly the written / listed offset;
    a string neither knows raises UnknownTimeZoneError.  Decided by evaluation over the whole finite
    domain on this run: every pytz.all_timezones key, every offset the table supports in every
    accepted spelling, every abbreviation of the table."""

    name = "utils.get_timezone_from_tz_string/resolution"
    func = "dateparser.utils.get_timezone_from_tz_string"
    props = ["C12", "C01", "C11"]
    concrete_samples = 1
    PARTS = 4

    @staticmethod
    def cases():
        return [dict(domain=d, part=i) for d in ("tzdb", "offsets", "abbreviations")
                for i in range(tz_name_resolution.PARTS)] + [dict(domain="unknown", part=0)]

    @staticmethod
    def setup(inp, case):
        import re

        import pytz

        from dateparser.timezones import timezone_info_list
        from dateparser.utils import get_timezone_from_tz_string as f

        probes = [_dt.datetime(1975, 1, 15, 12), _dt.datetime(2020, 1, 15, 12),
                  _dt.datetime(2020, 7, 15, 12)]
        known = set(pytz.all_timezones)

        def written(name):
            m = re.fullmatch(r"UTC\\([+-])(\d\d):(\d\d)", name)
            sign, hh, mm = m.groups()
            secs = (int(hh) * 3600 + int(mm) * 60) * (1 if sign == "+" else -1)
            sp = [sign + hh + mm, sign + hh + ":" + mm, "UTC" + sign + hh + ":" + mm,
                  "GMT" + sign + hh + ":" + mm, "UTC" + sign + hh + mm, "GMT" + sign + hh + mm]
            if mm == "00":
                sp += ["UTC" + sign + hh, "GMT" + sign + hh]
                if hh[0] == "0":
                    sp += ["UTC" + sign + hh[1], "GMT" + sign + hh[1]]
            return secs, sp

        def run():
            bad, n = [], 0
            part, parts = case["part"], tz_name_resolution.PARTS
            if case["domain"] == "tzdb":
                for i, name in enumerate(sorted(known)):
                    if i % parts != part:
                        continue
                    n += 1
                    try:
                        z = f(name)
                    except Exception as e:
                        bad.append((name, "raised %r" % (e,)))
                        continue
                    ref = pytz.timezone(name)
                    for p in probes:
                        try:
                            a, b = z.localize(p).utcoffset(), ref.localize(p).utcoffset()
                        except Exception as e:
                            a, b = repr(e), None
                        if a != b:
                            bad.append((name, "offset %s, tz database says %s at %s" % (a, b, p)))
                            break
            elif case["domain"] in ("offsets", "abbreviations"):
                items = []
                for gi, info in enumerate(timezone_info_list):
                    for name, secs in info["timezones"]:
                        if gi == 0 and case["domain"] == "offsets":
                            want, sps = written(name)
                            items += [(sp, {want}) for sp in sps]
                        elif gi != 0 and case["domain"] == "abbreviations":
                            items.append((name, None))
                listed = {}
                for info in timezone_info_list[1:]:
                    for name, secs in info["timezones"]:
                        listed.setdefault(name, set()).add(secs)
                for i, (sp, want) in enumerate(sorted(set((a, frozenset(b) if b else None)
                                                          for a, b in items), key=lambda t: t[0])):
                    if i % parts != part or sp in known:
                        continue
                    n += 1
                    want = set(want) if want else listed[sp]
                    try:
                        z = f(sp)
                        got = z.utcoffset(probes[1])
                    except Exception as e:
                        bad.append((sp, "raised %r" % (e,)))
                        continue
                    if got is None or int(got.total_seconds()) not in want:
                        bad.append((sp, "offset %s, written/listed %s" % (got, sorted(want))))
            else:
                for s in ["Nowhere/Land", "XQZT", "Mars/Olympus", "12345"]:
                    n += 1
                    try:
                        z = f(s)
                        bad.append((s, "resolved to %r" % (z,)))
                    except pytz.UnknownTimeZoneError:
                        pass
                    except Exception as e:
                        bad.append((s, "raised %r" % (e,)))
            return n, bad[:6], len(bad)

        return run, (), {}, {}

    @staticmethod
    def post(case, g, out):
        if not out.ok:
            return {"no-exception": False}
        n, bad, nbad = out.value
        clause = {"tzdb": "tz-database-key-resolves-to-that-database-zone",
                  "offsets": "written-offset-is-the-zone's-offset",
                  "abbreviations": "abbreviation-resolves-to-a-listed-offset",
                  "unknown": "unknown-name-raises-UnknownTimeZoneError"}[case["domain"]]
        return {"no-exception": True, "domain-nonempty": n > 0, clause: nbad == 0}


class get_local_tz_fresh:
    """FreshnessDateDataParser.get_local_tz: the process-local zone is read when it is asked for -
    two consecutive calls under two different local zones return the first and then the second."""

    name = "freshness.FreshnessDateDataParser.get_local_tz/read-at-call-time"
    func = "dateparser.freshness_date_parser.FreshnessDateDataParser.get_local_tz"
    props = ["C12", "C04"]
    concrete_samples = 1

    @staticmethod
    def cases():
        return [dict(on="singleton"), dict(on="fresh-instance")]

    @staticmethod
    def setup(inp, case):
        import dateparser.freshness_date_parser as F

        z1, z2 = object(), object()
        seq = [z1, z2, z2]
        F.get_localzone = lambda: seq.pop(0)
        p = F.freshness_date_parser if case["on"] == "singleton" else F.FreshnessDateDataParser()

        def run():
            a = p.get_local_tz()
            b = p.get_local_tz()
            return a is z1, b is z2

        return run, (), {}, {}

    @staticmethod
    def post(case, g, out):
        if not out.ok:
            return {"no-exception": False}
        a, b = out.value
        return {"no-exception": True, "first-call-returns-the-current-local-zone": a,
                "second-call-returns-the-new-local-zone": b}


CONTRACTS += [tz_name_resolution, get_local_tz_fresh]
