"""Frame condition for every per-call property: the library keeps no hidden state between calls
beyond the reviewed caches.

A result can only depend on the call history through state that outlives the call: module globals,
class attributes, attributes of module-level singleton objects.  This contract enumerates, from the
AST of every module under dateparser/ (data modules excepted) on every run, every *write site* to
such state -

  * `global` declarations inside functions,
  * class-level attributes initialised with a mutable container,
  * assignments / mutations through `cls.<attr>` or `<ClassName>.<attr>`,
  * mutations of module-level containers from inside functions,
  * `self.<attr> = ...` outside `__init__` in classes that have a module-level instance, or whose
    instances outlive a call (Locale, Dictionary, Settings, the loader, DateDataParser, the search objects),
  * attribute assignments on module-level objects,

and requires the set to be exactly the reviewed one below.  Each reviewed site is either a constant
table that nothing mutates, or a cache whose content is a function of its key (those have their own
obligations: Dictionary caches -> C05/C06 vocabulary sweeps and `lazy-attributes`, loader caches ->
`shared-data-frame`, the Settings registry -> `Settings.replace/*`, `_add_to_cache`, the tz tables
-> C19).  A new site is an unreviewed way for one call to influence the next: the obligation fails
and names it.  Decided by evaluation of the scan (no solver); complements the bounded `history`
stand-in, which looks for observable differences.
"""
import ast
import os

MUT_METHODS = {"append", "extend", "insert", "remove", "pop", "clear", "update", "add", "discard",
               "setdefault", "popitem", "sort", "reverse", "appendleft", "move_to_end"}
CONTAINER_CALLS = ("list", "dict", "set", "OrderedDict", "defaultdict", "deque", "Counter")

# classes whose instances outlive a call (cached by the loader / the Settings registry / kept by users)
LONG_LIVED = {"Locale", "Dictionary", "NormalizedDictionary", "Settings", "LocaleDataLoader", "DateDataParser",
              "DateSearchWithDetection", "_ExactLanguageSearch", "FullTextLanguageDetector"}

REVIEWED = {
    # constant tables (never written after class creation)
    "dateparser/calendars/hijri_parser.py: class hijri_parser: class-level mutable attribute _time_conventions",
    "dateparser/calendars/jalali_parser.py: class jalali_parser: class-level mutable attribute _digits",
    "dateparser/calendars/jalali_parser.py: class jalali_parser: class-level mutable attribute _months",
    "dateparser/calendars/jalali_parser.py: class jalali_parser: class-level mutable attribute _number_letters",
    "dateparser/calendars/jalali_parser.py: class jalali_parser: class-level mutable attribute _weekdays",
    "dateparser/languages/validation.py: class LanguageValidator: class-level mutable attribute VALID_KEYS",
    "dateparser/parser.py: class _no_spaces_parser: class-level mutable attribute _dateformats",
    "dateparser/parser.py: class _no_spaces_parser: class-level mutable attribute _preferred_formats",
    "dateparser/parser.py: class _no_spaces_parser: class-level mutable attribute _preferred_formats_ordered_8_digit",
    "dateparser/parser.py: class _no_spaces_parser: class-level mutable attribute _timeformats",
    "dateparser/parser.py: class _no_spaces_parser: class-level mutable attribute period",
    "dateparser/parser.py: class _parser: class-level mutable attribute alpha_directives",
    "dateparser/parser.py: class _parser: class-level mutable attribute num_directives",
    "dateparser/parser.py: class _time_parser: class-level mutable attribute time_directives",
    # caches keyed by what determines their content
    "dateparser/conf.py: Settings._get_settings_from_pyfile: assigns class attribute cls._pyfile_data",
    "dateparser/conf.py: class Settings: class-level mutable attribute _mod_settings",
    "dateparser/date.py: DateDataParser._get_locale_loader: assigns class attribute cls.locale_loader",
    "dateparser/languages/dictionary.py: class Dictionary: class-level mutable attribute _match_relative_regex_cache",
    "dateparser/languages/dictionary.py: class Dictionary: class-level mutable attribute _sorted_relative_strings_cache",
    "dateparser/languages/dictionary.py: class Dictionary: class-level mutable attribute _sorted_words_cache",
    "dateparser/languages/dictionary.py: class Dictionary: class-level mutable attribute _split_regex_cache",
    "dateparser/languages/dictionary.py: class Dictionary: class-level mutable attribute _split_relative_regex_cache",
    "dateparser/languages/loader.py: class LocaleDataLoader: class-level mutable attribute _loaded_languages",
    "dateparser/languages/loader.py: class LocaleDataLoader: class-level mutable attribute _loaded_locales",
    "dateparser/languages/validation.py: LanguageValidator.get_logger: assigns class attribute cls.logger",
    # optional language-detection back ends (model objects loaded once)
    "dateparser/custom_language_detection/fasttext.py: _load_fasttext_model: assigns class attribute _FastTextCache.model",
    "dateparser/custom_language_detection/langdetect.py: _init_factory: assigns class attribute _Factory.data",
    # lazily built per-Locale / per-dictionary attributes: functions of the locale data and the
    # NORMALIZE flag (obligation `lazy-attributes-independent-of-first-use`, C05/C06 sweeps)
    "dateparser/languages/dictionary.py: NormalizedDictionary._normalize: assigns attribute self._dictionary of a long-lived object",
    "dateparser/languages/dictionary.py: NormalizedDictionary._normalize: assigns attribute self._relative_strings of a long-lived object",
    "dateparser/languages/locale.py: Locale._generate_dictionary: assigns attribute self._dictionary of a long-lived object",
    "dateparser/languages/locale.py: Locale._generate_normalized_dictionary: assigns attribute self._normalized_dictionary of a long-lived object",
    "dateparser/languages/locale.py: Locale._get_abbreviations: assigns attribute self._abbreviations of a long-lived object",
    "dateparser/languages/locale.py: Locale._get_relative_translations: assigns attribute self._normalized_relative_translations of a long-lived object",
    "dateparser/languages/locale.py: Locale._get_relative_translations: assigns attribute self._relative_translations of a long-lived object",
    "dateparser/languages/locale.py: Locale._get_simplifications: assigns attribute self._normalized_simplifications of a long-lived object",
    "dateparser/languages/locale.py: Locale._get_simplifications: assigns attribute self._simplifications of a long-lived object",
    "dateparser/languages/locale.py: Locale._get_split_dictionary: assigns attribute self._split_dictionary of a long-lived object",
    "dateparser/languages/locale.py: Locale._set_splitters: assigns attribute self._splitters of a long-lived object",
    "dateparser/languages/locale.py: Locale._set_wordchars: assigns attribute self._wordchars of a long-lived object",
    "dateparser/languages/locale.py: Locale.get_wordchars_for_detection: assigns attribute self._wordchars_for_detection of a long-lived object",
    # per-object working state of the search classes and of DateDataParser with a detection callback
    # (outside C03's quantifier: "an instance created without ... a language-detection callback")
    "dateparser/date.py: DateDataParser._get_applicable_locales: assigns attribute self.languages of a long-lived object",
    "dateparser/search/search.py: DateSearchWithDetection.detect_language: assigns attribute self.language_detector of a long-lived object",
    "dateparser/search/search.py: _ExactLanguageSearch.get_current_language: assigns attribute self.language of a long-lived object",
    "dateparser/search/text_detection.py: FullTextLanguageDetector.character_check: assigns attribute self.languages of a long-lived object",
    # the tz tables, written once at import (C19)
    "dateparser/timezone_parser.py: _load_offsets: global _search_regex",
    "dateparser/timezone_parser.py: _load_offsets: global _search_regex_ignorecase",
    "dateparser/timezone_parser.py: _load_offsets: global _tz_offsets",
}


def _is_container(n):
    if isinstance(n, (ast.List, ast.Dict, ast.Set, ast.ListComp, ast.DictComp, ast.SetComp)):
        return True
    if isinstance(n, ast.Call):
        f = n.func
        if isinstance(f, ast.Name) and f.id in CONTAINER_CALLS:
            return True
        if isinstance(f, ast.Attribute) and f.attr in CONTAINER_CALLS:
            return True
    return False


def _functions(node, cls=None):
    for st in ast.iter_child_nodes(node):
        if isinstance(st, (ast.FunctionDef, ast.AsyncFunctionDef)):
            yield cls, st
            yield from _functions(st, cls)
        elif isinstance(st, ast.ClassDef):
            yield from _functions(st, st.name)
        else:
            yield from _functions(st, cls)


def scan(root):
    """every shared-state write site of the package under `root` (sorted, de-duplicated)"""
    sites = set()
    pkg = os.path.join(root, "dateparser")
    for dp, _, fns in os.walk(pkg):
        sub = os.path.relpath(dp, pkg).replace(os.sep, "/")
        if sub == "data" or sub.startswith("data/"):
            continue
        for fname in fns:
            if not fname.endswith(".py"):
                continue
            path = os.path.join(dp, fname)
            rel = os.path.relpath(path, root).replace(os.sep, "/")
            tree = ast.parse(open(path, encoding="utf-8").read())
            containers, singletons, classes, module_names = set(), {}, {}, set()
            for st in tree.body:
                if isinstance(st, (ast.Assign, ast.AnnAssign)):
                    targets = st.targets if isinstance(st, ast.Assign) else [st.target]
                    for t in targets:
                        if isinstance(t, ast.Name):
                            module_names.add(t.id)
                            if st.value is not None and _is_container(st.value):
                                containers.add(t.id)
                            if isinstance(st.value, ast.Call) and isinstance(st.value.func, ast.Name):
                                singletons[t.id] = st.value.func.id
                if isinstance(st, ast.ClassDef):
                    classes[st.name] = st
            single_classes = set(singletons.values()) & set(classes)
            class_refs = ("cls",) + tuple(classes)
            for cname, c in classes.items():
                for st in c.body:
                    if isinstance(st, ast.Assign) and _is_container(st.value):
                        for t in st.targets:
                            if isinstance(t, ast.Name):
                                sites.add("%s: class %s: class-level mutable attribute %s" % (rel, cname, t.id))
            for cls, fn in _functions(tree):
                where = "%s: %s%s" % (rel, (cls + ".") if cls else "", fn.name)
                params = {a.arg for a in fn.args.args + fn.args.kwonlyargs + fn.args.posonlyargs}
                local = set(params)
                for n in ast.walk(fn):
                    if isinstance(n, ast.Name) and isinstance(n.ctx, ast.Store):
                        local.add(n.id)
                declared_global = set()
                for n in ast.walk(fn):
                    if isinstance(n, ast.Global):
                        for g in n.names:
                            declared_global.add(g)
                            sites.add("%s: global %s" % (where, g))
                shadowed = local - declared_global
                for n in ast.walk(fn):
                    if isinstance(n, ast.Call) and isinstance(n.func, ast.Attribute) and n.func.attr in MUT_METHODS:
                        tgt = n.func.value
                        if isinstance(tgt, ast.Name) and tgt.id in containers and tgt.id not in shadowed:
                            sites.add("%s: mutates module-level container %s.%s()" % (where, tgt.id, n.func.attr))
                        if isinstance(tgt, ast.Attribute) and isinstance(tgt.value, ast.Name) \
                                and tgt.value.id in class_refs and tgt.value.id not in shadowed - {"cls"}:
                            sites.add("%s: mutates class attribute %s.%s.%s()" % (where, tgt.value.id, tgt.attr,
                                                                                 n.func.attr))
                    elif isinstance(n, (ast.Assign, ast.AugAssign, ast.Delete, ast.AnnAssign)):
                        ts = n.targets if isinstance(n, (ast.Assign, ast.Delete)) else [n.target]
                        for t in ts:
                            if isinstance(t, ast.Subscript):
                                base = t.value
                                if isinstance(base, ast.Name) and base.id in containers and base.id not in shadowed:
                                    sites.add("%s: writes module-level container %s[...]" % (where, base.id))
                                if isinstance(base, ast.Attribute) and isinstance(base.value, ast.Name) \
                                        and base.value.id in class_refs:
                                    sites.add("%s: writes class attribute %s.%s[...]" % (where, base.value.id,
                                                                                          base.attr))
                            if isinstance(t, ast.Attribute) and isinstance(t.value, ast.Name):
                                v = t.value.id
                                if v in class_refs and v not in shadowed - {"cls"}:
                                    sites.add("%s: assigns class attribute %s.%s" % (where, v, t.attr))
                                elif v == "self" and cls in single_classes and fn.name != "__init__":
                                    sites.add("%s: assigns attribute self.%s of a class with a module-level "
                                              "instance" % (where, t.attr))
                                elif v == "self" and cls in LONG_LIVED and fn.name != "__init__":
                                    sites.add("%s: assigns attribute self.%s of a long-lived object" % (where,
                                                                                                       t.attr))
                                elif v in module_names and v not in shadowed and v not in ("self", "cls"):
                                    sites.add("%s: assigns attribute %s.%s of a module-level object" % (where, v,
                                                                                                         t.attr))
    return sorted(sites)


class shared_state_write_sites:
    """see the module docstring"""

    name = "package/shared-state-write-sites"
    func = "dateparser (every module: AST scan)"
    props = ["C03", "C01", "C04", "C05", "C06", "C07", "C08", "C09", "C10", "C11", "C12", "C13", "C14", "C15"]
    concrete_samples = 1

    @staticmethod
    def cases():
        return [{}]

    @staticmethod
    def setup(inp, case):
        import dateparser

        root = os.path.dirname(os.path.dirname(os.path.abspath(dateparser.__file__)))

        def run():
            return scan(root)

        return run, (), {}, {}

    @staticmethod
    def post(case, g, out):
        if not out.ok:
            return {"scan-ran": False}
        found = set(out.value)
        new = sorted(found - REVIEWED)
        res = {"scan-ran": True, "package-scanned": len(found) >= 10,
               "no-unreviewed-shared-state-write-site": new == []}
        for site in new[:10]:  # name each offending site in its own (failing) clause
            res["unreviewed shared state: " + site] = False
        return res


CONTRACTS = [shared_state_write_sites]
