"""Contracts for C10: strictness only filters; strict results never borrow from the clock."""
from contracts.c_parser import ABBR, MONTHS, ORDERS, SEPS, _settings
from pyvc.spec import And, Implies, Ite, Not, Or, dim, same_fields

PARTS = ("day", "month", "year")


def _subsets(xs):
    out = [[]]
    for x in xs:
        out += [o + [x] for o in out]
    return out


class check_strict_parsing:
    """raises ValueError iff (STRICT_PARSING and something is missing) or a required part is missing;
    otherwise returns None; writes nothing."""

    name = "parser._check_strict_parsing"
    func = "dateparser.parser._check_strict_parsing"
    props = ["C10"]
    concrete_samples = 1

    @staticmethod
    def cases():
        return [dict(missing=m, STRICT_PARSING=s, REQUIRE_PARTS=r)
                for m in _subsets(PARTS) for s in (False, True) for r in _subsets(PARTS)]

    @staticmethod
    def setup(inp, case):
        from dateparser.parser import _check_strict_parsing as f
        from pyvc.harness import make_settings

        st = make_settings(STRICT_PARSING=case["STRICT_PARSING"],
                           REQUIRE_PARTS=list(case["REQUIRE_PARTS"]))
        missing = list(case["missing"])
        return f, (missing, st), {}, dict(st=st, missing=missing)

    @staticmethod
    def post(case, g, out):
        must_raise = (case["STRICT_PARSING"] and bool(case["missing"])) or bool(
            set(case["REQUIRE_PARTS"]) & set(case["missing"]))
        return {
            "raises-ValueError-iff-a-stated-requirement-is-missing":
                out.raised(ValueError) if must_raise else (out.ok and out.value is None),
            "arguments-unmodified": g["missing"] == list(case["missing"])
            and g["st"].REQUIRE_PARTS == list(case["REQUIRE_PARTS"]),
        }


# --- relational obligations on _parser.parse --------------------------------------------------------

FAMILIES = {
    # name: (template, parts the string states)
    "year": ([("Y", 4)], {"year"}),
    "month-year": (["march", " ", ("Y", 4)], {"month", "year"}),
    "day-month": ([("D", 2), " ", "march"], {"day", "month"}),
    "month": (["march"], {"month"}),
    "weekday": (["friday"], set()),
    "time": ([("H", 2), ":", ("T", 2)], set()),
    # a weekday name next to a month and/or year, no day of month
    "weekday-month-year": (["friday", " ", "march", " ", ("Y", 4)], {"month", "year"}),
    "weekday-month": (["monday", " ", "january"], {"month"}),
    "weekday-year": (["sunday", " ", ("Y", 4)], {"year"}),
    # two month names and a year, no day ("mar mar 2015" is what es/it/pt 'Tuesday March' becomes)
    "month-month-year": (["march", " ", "april", " ", ("Y", 4)], {"month", "year"}),
    "month-same-month-year": (["march", " ", "march", " ", ("Y", 4)], {"month", "year"}),
    "full-words": ([("D", 2), " ", "march", " ", ("Y", 4)], {"day", "month", "year"}),
    "full-words-time": ([("D", 2), " ", "march", " ", ("Y", 4), " ", ("H", 2), ":", ("T", 2)],
                        {"day", "month", "year"}),
}


def _numeric_layouts():
    """all 6 orders x all 3 positions of the four-digit field (18 layouts), separator '.'"""
    out = {}
    for o in ORDERS:
        for ypos in range(3):
            tpl = []
            k = 0
            for i in range(3):
                if i:
                    tpl.append(".")
                if i == ypos:
                    tpl.append(("Y", 4))
                else:
                    tpl.append(("AB"[k], 2))
                    k += 1
            out["numeric-%s-y%d" % (o, ypos)] = (tpl, {"day", "month", "year"}, o)
    return out


# set by contracts.c_frontend while it re-states these contracts through the English front end
KERNEL_PARSE = None


def _two_runs(parse):
    def run2(s, a, b):
        def one(st):
            try:
                return ("ok", parse(s, st))
            except ValueError:
                return ("ValueError", None)

        return one(a), one(b)

    return run2


def _same(r1, r2):
    (d1, p1), (d2, p2) = r1, r2
    return And(d1.year == d2.year, d1.month == d2.month, d1.day == d2.day, d1.hour == d2.hour,
               d1.minute == d2.minute, d1.second == d2.second, d1.microsecond == d2.microsecond,
               p1 == p2)


STRICT_VARIANTS = [dict(STRICT_PARSING=True, REQUIRE_PARTS=[])] + [
    dict(STRICT_PARSING=False, REQUIRE_PARTS=r) for r in _subsets(PARTS) if r]


class strictness_only_filters:
    """same string, same reference time, strictness on vs off: the strict run either raises
    ValueError (-> None at the API) or returns exactly the non-strict value; it returns iff the
    string states every (required) part."""

    name = "parser._parser.parse/strict-vs-off"
    func = "dateparser.parser._parser.parse"
    props = ["C10"]

    @classmethod
    def cases(cls, thorough=False):
        out = []
        for fam in FAMILIES:
            for v in STRICT_VARIANTS:
                out.append(dict(v, family=fam))
        nl = _numeric_layouts()
        for name in nl:
            if thorough or name.endswith(("y2", "YMD-y0", "DYM-y1")):
                out.append(dict(STRICT_PARSING=True, REQUIRE_PARTS=[], family=name))
        # a satisfied requirement must not disturb the completion of the parts that are NOT required
        for fam, req in (("month-year", ["month"]), ("month-year", ["year"]), ("month-year", ["month", "year"]),
                         ("year", ["year"]), ("month", ["month"])):
            for pd, pm in (("first", "last"), ("last", "first")):
                out.append(dict(STRICT_PARSING=False, REQUIRE_PARTS=req, family=fam,
                                PREFER_DAY_OF_MONTH=pd, PREFER_MONTH_OF_YEAR=pm))
        return out

    @staticmethod
    def _tpl(case):
        fam = case["family"]
        if fam in FAMILIES:
            return FAMILIES[fam] + (None,)
        return _numeric_layouts()[fam]

    @staticmethod
    def setup(inp, case):
        from dateparser.parser import _parser
        from pyvc.harness import build, make_settings

        tpl, parts, order = strictness_only_filters._tpl(case)
        now = inp.datetime("now")
        inp.assume(And(now.year >= 10, now.year <= 9990))
        base = dict(RELATIVE_BASE=now, TIMEZONE="UTC")
        if order:
            base["DATE_ORDER"] = order
        for k in ("PREFER_DAY_OF_MONTH", "PREFER_MONTH_OF_YEAR"):
            if k in case:
                base[k] = case[k]
        strict = make_settings(STRICT_PARSING=case["STRICT_PARSING"],
                               REQUIRE_PARTS=list(case["REQUIRE_PARTS"]), **base)
        off = make_settings(**base)
        s, f = build(inp, tpl)
        # validity of the written numbers (word families only; numeric layouts whose four-digit
        # field is not where the order expects the year have no canonical reading)
        valid = None
        if order is None:
            cs = []
            if "Y" in f:
                cs.append(f["Y"] >= 1)
            if "D" in f:
                cs.append(And(f["D"] >= 1, f["D"] <= (dim(f["Y"], 3) if "Y" in f else 31)))
            if "H" in f:
                cs.append(And(f["H"] <= 23, f["T"] <= 59))
            valid = And(*cs) if cs else True
        return _two_runs(KERNEL_PARSE or _parser.parse), (s, strict, off), {}, dict(parts=parts, valid=valid)

    @staticmethod
    def post(case, g, out):
        if not out.ok:
            return {"only-ValueError-is-raised": False}
        (k1, r1), (k2, r2) = out.value
        parts = g["parts"]
        required = set(PARTS) if case["STRICT_PARSING"] else set(case["REQUIRE_PARTS"])
        states_all = required <= parts
        res = {"only-ValueError-is-raised": True}
        if k1 == "ok":
            res["strict-result==non-strict-result"] = k2 == "ok" and _same(r1, r2)
            # (an invalid day such as "59 march" is legitimately read as a two-digit year)
            res["valid=>returns-only-if-the-string-states-the-required-parts"] = Implies(
                True if g["valid"] is None else g["valid"], states_all)
        elif g["valid"] is not None:
            res["valid=>rejects-only-if-a-required-part-is-missing"] = Implies(
                g["valid"], (not states_all) or k2 != "ok")
        return res


class strict_result_independent_of_now:
    """two reference times, strict settings: if both runs return, every required part agrees (all of
    the value when STRICT_PARSING)."""

    name = "parser._parser.parse/strict-now-independence"
    func = "dateparser.parser._parser.parse"
    props = ["C10"]

    @classmethod
    def cases(cls, thorough=False):
        out = []
        for fam in ("full-words", "full-words-time"):
            out.append(dict(STRICT_PARSING=True, REQUIRE_PARTS=[], family=fam))
        for fam, req in (("month-year", ["month", "year"]), ("year", ["year"]),
                         ("day-month", ["day", "month"]), ("month", ["month"]),
                         ("weekday-month-year", ["month", "year"]), ("weekday-month-year", ["month"]),
                         ("weekday-month", ["month"]), ("weekday-year", ["year"])):
            out.append(dict(STRICT_PARSING=False, REQUIRE_PARTS=req, family=fam))
        for name in _numeric_layouts():
            out.append(dict(STRICT_PARSING=True, REQUIRE_PARTS=[], family=name))
        return out

    @staticmethod
    def setup(inp, case):
        from dateparser.parser import _parser
        from pyvc.harness import build, make_settings

        tpl, parts, order = strictness_only_filters._tpl(case)
        n1 = inp.datetime("now1")
        n2 = inp.datetime("now2")
        inp.assume(And(n1.year >= 10, n1.year <= 9990, n2.year >= 10, n2.year <= 9990))
        kw = dict(TIMEZONE="UTC", STRICT_PARSING=case["STRICT_PARSING"],
                  REQUIRE_PARTS=list(case["REQUIRE_PARTS"]))
        if order:
            kw["DATE_ORDER"] = order
        a = make_settings(RELATIVE_BASE=n1, **kw)
        b = make_settings(RELATIVE_BASE=n2, **kw)
        s, f = build(inp, tpl)
        return _two_runs(KERNEL_PARSE or _parser.parse), (s, a, b), {}, {}

    @staticmethod
    def post(case, g, out):
        if not out.ok:
            return {"only-ValueError-is-raised": False}
        (k1, r1), (k2, r2) = out.value
        res = {"only-ValueError-is-raised": True}
        if k1 == "ok" and k2 == "ok":
            d1, d2 = r1[0], r2[0]
            if case["STRICT_PARSING"]:
                res["strict-result-same-for-both-reference-times"] = _same(r1, r2)
            else:
                res["required-parts-same-for-both-reference-times"] = And(
                    *[getattr(d1, p) == getattr(d2, p) for p in case["REQUIRE_PARTS"]])
        return res


CONTRACTS = [check_strict_parsing, strictness_only_filters, strict_result_independent_of_now]


class strict_needs_three_tokens:
    """a string with fewer than three date tokens cannot state day, month and year: under
    STRICT_PARSING it is always rejected, whatever the digits (including 00) and the reference time."""

    name = "parser._parser.parse/strict-rejects-fewer-than-three-parts"
    func = "dateparser.parser._parser.parse"
    props = ["C10"]

    TWO = {
        "nn-yyyy": [("A", 2), " ", ("Y", 4)], "yyyy-nn": [("Y", 4), " ", ("A", 2)],
        "nn-nn": [("A", 2), " ", ("B", 2)], "nn": [("A", 2)], "n-yyyy": [("A", 1), " ", ("Y", 4)],
        "nn-month-yyyy?": [("A", 2), " march"], "nn-yyyy-time": [("A", 2), " ", ("Y", 4), " ", ("H", 2),
                                                               ":", ("T", 2)],
        "nn/yyyy": [("A", 2), "/", ("Y", 4)], "month-nn": ["march ", ("A", 2)],
    }

    @classmethod
    def cases(cls, thorough=False):
        out = []
        for fam in cls.TWO:
            for order in (("MDY", "YMD", "DMY") if thorough else ("MDY", "YMD")):
                for req in ([], ["day", "month", "year"]):
                    out.append(dict(family=fam, DATE_ORDER=order, REQUIRE_PARTS=req))
        return out

    @staticmethod
    def setup(inp, case):
        from dateparser.parser import _parser
        from pyvc.harness import build, make_settings

        now = inp.datetime("now")
        inp.assume(And(now.year >= 10, now.year <= 9990))
        kw = dict(RELATIVE_BASE=now, TIMEZONE="UTC", DATE_ORDER=case["DATE_ORDER"])
        if case["REQUIRE_PARTS"]:
            kw["REQUIRE_PARTS"] = list(case["REQUIRE_PARTS"])
        else:
            kw["STRICT_PARSING"] = True
        st = make_settings(**kw)
        s, f = build(inp, strict_needs_three_tokens.TWO[case["family"]])
        return _parser.parse, (s, st), {}, {}

    @staticmethod
    def post(case, g, out):
        return {"always-rejected-with-ValueError": out.raised(ValueError)}


class two_token_now_independence:
    """two-token strings, two reference times, REQUIRE_PARTS naming one or two parts: whichever part
    the tokens state, a required part of a returned value never depends on the reference time, and
    requiring both day and month of a string with one numeric token besides the year rejects it."""

    name = "parser._parser.parse/two-token-now-independence"
    func = "dateparser.parser._parser.parse"
    props = ["C10"]

    @classmethod
    def cases(cls, thorough=False):
        out = []
        for fam in strict_needs_three_tokens.TWO:
            for order in (("MDY", "YMD", "DMY") if thorough else ("MDY", "YMD")):
                for req in (["day"], ["month"], ["day", "month"]) + ((["year"],) if thorough else ()):
                    out.append(dict(family=fam, DATE_ORDER=order, REQUIRE_PARTS=req))
        return out

    @staticmethod
    def setup(inp, case):
        from dateparser.parser import _parser
        from pyvc.harness import build, make_settings

        n1 = inp.datetime("now1")
        n2 = inp.datetime("now2")
        inp.assume(And(n1.year >= 10, n1.year <= 9990, n2.year >= 10, n2.year <= 9990))
        kw = dict(TIMEZONE="UTC", DATE_ORDER=case["DATE_ORDER"],
                  REQUIRE_PARTS=list(case["REQUIRE_PARTS"]))
        a = make_settings(RELATIVE_BASE=n1, **kw)
        b = make_settings(RELATIVE_BASE=n2, **kw)
        s, f = build(inp, strict_needs_three_tokens.TWO[case["family"]])
        return _two_runs(KERNEL_PARSE or _parser.parse), (s, a, b), {}, {}

    @staticmethod
    def post(case, g, out):
        if not out.ok:
            return {"only-ValueError-is-raised": False}
        (k1, r1), (k2, r2) = out.value
        res = {"only-ValueError-is-raised": True}
        if k1 == "ok" and k2 == "ok":
            d1, d2 = r1[0], r2[0]
            res["required-parts-same-for-both-reference-times"] = And(
                *[getattr(d1, p) == getattr(d2, p) for p in case["REQUIRE_PARTS"]])
        one_numeric = case["family"] in ("nn-yyyy", "yyyy-nn", "nn", "n-yyyy", "nn-yyyy-time", "nn/yyyy")
        if one_numeric and case["REQUIRE_PARTS"] == ["day", "month"]:
            res["one-token-cannot-state-day-and-month"] = k1 != "ok" and k2 != "ok"
        return res


class api_level_strictness:
    """C10 at the API: strictness must only filter, also through the custom-format parser and
    across languages.  Concrete inputs (the first design's composition counterexamples); all-concrete
    obligations, evaluated on the real call chain."""

    name = "api/strictness-only-filters"
    func = "dateparser.parse"
    props = ["C10"]
    concrete_samples = 1

    @staticmethod
    def cases():
        return [
            dict(string="March 2015", formats=["%B %Y"], strict={"STRICT_PARSING": True}, langs=["en"]),
            dict(string="2015", formats=["%Y"], strict={"REQUIRE_PARTS": ["month"]}, langs=["en"]),
            dict(string="12 March 2015", formats=["%d %B %Y"], strict={"STRICT_PARSING": True},
                 langs=["en"]),
            dict(string="02/29", formats=None, strict={"REQUIRE_PARTS": ["year"]}, langs=None),
            dict(string="02/29", formats=None, strict={"REQUIRE_PARTS": ["year"]}, langs=["en"]),
            dict(string="1484823450", formats=None, strict={"STRICT_PARSING": True}, langs=["en"]),
            dict(string="10 mars", formats=None, strict={"STRICT_PARSING": True}, langs=["fr", "en"]),
            # several readings of one string (two formats; a format and the absolute parser):
            # strictness may reject, it may not switch to another reading
            dict(string="01 12 15", formats=["%H %M %S", "%m %d %y"], strict={"STRICT_PARSING": True},
                 langs=["en"]),
            dict(string="March 15", formats=["%B %y"], strict={"REQUIRE_PARTS": ["day"]}, langs=["en"]),
            dict(string="10 11", formats=["%H %M", "%d %m"], strict={"REQUIRE_PARTS": ["month"]},
                 langs=["en"]),
        ]

    @staticmethod
    def setup(inp, case):
        import datetime

        import dateparser

        from contracts.c_formats import _Clock

        base = {"RELATIVE_BASE": datetime.datetime(2021, 8, 31, 12, 30)}
        clock = _Clock(inp)  # both runs read the same system clock
        clock.install(inp)

        def run():
            off = dateparser.parse(case["string"], date_formats=case["formats"],
                                   languages=case["langs"], settings=dict(base))
            on = dateparser.parse(case["string"], date_formats=case["formats"],
                                  languages=case["langs"], settings=dict(base, **case["strict"]))
            return off, on

        return run, (), {}, {}

    @staticmethod
    def post(case, g, out):
        if not out.ok:
            return {"no-exception": False}
        off, on = out.value
        states = {"March 2015": {"month", "year"}, "2015": {"year"},
                  "12 March 2015": {"day", "month", "year"}, "02/29": {"day", "month"},
                  "1484823450": {"day", "month", "year"}, "10 mars": {"day", "month"}}.get(case["string"])
        required = {"day", "month", "year"} if case["strict"].get("STRICT_PARSING") else set(
            case["strict"]["REQUIRE_PARTS"])
        res = {
            "no-exception": True,
            "strict-result-is-the-non-strict-result-or-None": on is None or on == off,
        }
        if states is not None:  # (strings with several readings: only the filtering clause)
            res["a-result-only-if-the-string-states-the-required-parts"] = on is None or required <= states
        return res


CONTRACTS += [strict_needs_three_tokens, two_token_now_independence, api_level_strictness]
