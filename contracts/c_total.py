"""Contracts for C02: documented exceptions only.

 1. conf.check_settings: raises SettingValidationError iff some modified setting is invalid, for
    every single setting and every ordered pair (valid, invalid) / (invalid, valid).
 2. validation precedes parsing: dateparser.parse / DateDataParser.__init__ reject an invalid
    setting before the date string is looked at (tripwire on get_date_data / on the string).
 3. exception-escape obligations at the catch sites (_try_parser: ValueError only is caught;
    _try_freshness_parser: OverflowError + ValueError) for reference times over the WHOLE range
    [0001-01-01, 9999-12-31], naive or aware, and written zones at the range ends.
 4. argument type checks raise TypeError; DateData result shape.
"""
import datetime as _dt

from pyvc.spec import And, Implies, Ite, Not, Or

# documented value space per setting: (valid examples, invalid examples)
SETTING_VALUES = {
    "DATE_ORDER": (["MDY", "DMY", "YMD", "YDM", "MYD", "DYM"], ["XYZ", "", "mdy", 3, "NONE"]),
    "PREFER_LOCALE_DATE_ORDER": ([True, False], ["yes", 1]),
    "TIMEZONE": (["UTC", "local", "US/Eastern"], [5, 2.5]),
    "TO_TIMEZONE": (["UTC", "EST"], [5, False]),
    "RETURN_AS_TIMEZONE_AWARE": ([True, False], ["default", 1]),
    "PREFER_MONTH_OF_YEAR": (["current", "first", "last"], ["middle", 1]),
    "PREFER_DAY_OF_MONTH": (["current", "first", "last"], ["middle", 0]),
    "PREFER_DATES_FROM": (["current_period", "past", "future"], ["now", 2]),
    "RELATIVE_BASE": ([_dt.datetime(2020, 5, 15, 12, 0)], ["2020-05-15", 0]),
    "STRICT_PARSING": ([True, False], ["True", 0]),
    "REQUIRE_PARTS": ([[], ["day"], ["day", "month", "year"]],
                      [["hour"], ["day", "day"], "day", ("day",)]),
    "SKIP_TOKENS": ([[], ["t", "at"]], ["t", ("t",)]),
    "NORMALIZE": ([True, False], ["no", 1]),
    "RETURN_TIME_AS_PERIOD": ([True, False], ["x", 1]),
    "PARSERS": ([["absolute-time"], ["timestamp", "relative-time", "custom-formats",
                                    "absolute-time", "no-spaces-time", "negative-timestamp"]],
                [["absolute"], ["absolute-time", "absolute-time"], "absolute-time"]),
    "PREFER_LOCALE_DATE_ORDER_": None,
    "DEFAULT_LANGUAGES": ([[], ["en"], ["en", "fr"]], [["xx"], ["en", "en"], "en"]),
    "LANGUAGE_DETECTION_CONFIDENCE_THRESHOLD": ([0.0, 0.5, 1.0], [1.5, -0.1, "0.5", 1]),
    "CACHE_SIZE_LIMIT": ([0, 10, 1000], ["10", 2.5]),
}
SETTING_VALUES = {k: v for k, v in SETTING_VALUES.items() if v is not None}
UNKNOWN_KEYS = ["DATEORDER", "date_order", "FOO"]


def _sv(case_value):
    """case values are JSON: datetimes travel as ['dt', iso]"""
    if isinstance(case_value, list) and len(case_value) == 2 and case_value[0] == "dt":
        return _dt.datetime.fromisoformat(case_value[1])
    if isinstance(case_value, list) and len(case_value) == 2 and case_value[0] == "tuple":
        return tuple(case_value[1])
    return case_value


def _js(v):
    if isinstance(v, _dt.datetime):
        return ["dt", v.isoformat()]
    if isinstance(v, tuple):
        return ["tuple", list(v)]
    return v


def _setting_cases():
    singles = []
    for k, (good, bad) in SETTING_VALUES.items():
        for v in good:
            singles.append((k, v, True))
        for v in bad:
            singles.append((k, v, False))
    for k in UNKNOWN_KEYS:
        singles.append((k, 1, False))
    return singles


class check_settings:
    name = "conf.check_settings"
    func = "dateparser.conf.check_settings"
    props = ["C02"]
    concrete_samples = 1

    @staticmethod
    def cases():
        singles = _setting_cases()
        out = [dict(items=[[k, _js(v)]], valid=ok) for k, v, ok in singles]
        # ordered pairs: one valid setting and one invalid setting of another key, both orders
        goods = [(k, v) for k, v, ok in singles if ok][::3]
        bads = [(k, v) for k, v, ok in singles if not ok][::2]
        for gk, gv in goods:
            for bk, bv in bads:
                if gk == bk:
                    continue
                out.append(dict(items=[[gk, _js(gv)], [bk, _js(bv)]], valid=False))
                out.append(dict(items=[[bk, _js(bv)], [gk, _js(gv)]], valid=False))
        return out

    @staticmethod
    def setup(inp, case):
        from dateparser.conf import check_settings as f
        from pyvc.harness import make_settings

        mod = {k: _sv(v) for k, v in case["items"]}
        st = make_settings(_mod_settings=mod)
        before = repr(sorted(mod.items(), key=lambda kv: kv[0]))
        return f, (st,), {}, dict(mod=mod, before=before)

    @staticmethod
    def post(case, g, out):
        from dateparser.conf import SettingValidationError

        res = {"caller's-dict-unmodified": repr(sorted(g["mod"].items(), key=lambda kv: kv[0]))
               == g["before"]}
        if case["valid"]:
            res["valid-settings-accepted"] = out.ok and out.value is None
        else:
            res["invalid-setting-rejected-with-SettingValidationError"] = out.raised(
                SettingValidationError)
        return res


class validation_precedes_parsing:
    name = "dateparser.parse/validation-precedes-parsing"
    func = "dateparser.parse"
    props = ["C02"]
    concrete_samples = 1

    @staticmethod
    def cases():
        bad = [["DATE_ORDER", "XYZ"], ["TIMEZONE", 5], ["FOO", 1], ["REQUIRE_PARTS", ["hour"]],
               ["PARSERS", ["nope"]], ["STRICT_PARSING", "yes"]]
        strings = ["", "12/13/2020", "yesterday", "٢٠١٥", "not a date at all", "1" * 100]
        out = []
        for b in bad:
            for s in strings:
                out.append(dict(bad=b, string=s, entry="parse", extra=None))
            out.append(dict(bad=b, string="12/13/2020", entry="parse",
                            extra=["RELATIVE_BASE", ["dt", "2020-05-15T12:00:00"]]))
            out.append(dict(bad=b, string="x", entry="DateDataParser", extra=None))
        # every documented invalid value, alone (so every other setting keeps its default), and the
        # wrongly typed values that compare EQUAL to the default (0 == False, 1000.0 == 1000, ...)
        seen = set(repr(x) for x in bad)
        more = [[k, _js(v)] for k, v, ok in _setting_cases() if not ok]
        from dateparser_data.settings import settings as defaults

        for k, d in sorted(defaults.items()):
            if k not in SETTING_VALUES:
                continue
            if isinstance(d, bool):
                more.append([k, int(d)])
            elif isinstance(d, int):
                more.append([k, float(d)])
            elif d is None and k != "RELATIVE_BASE":
                more.append([k, False])
            elif d is None:
                more += [[k, False], [k, 0]]
        for b in more:
            if repr(b) in seen:
                continue
            seen.add(repr(b))
            out.append(dict(bad=b, string="12/13/2020", entry="parse", extra=None))
            out.append(dict(bad=b, string="x", entry="DateDataParser", extra=None))
        return out

    @staticmethod
    def setup(inp, case):
        import dateparser
        import dateparser.date as D

        settings = {}
        if case["extra"]:
            settings[case["extra"][0]] = _sv(case["extra"][1])
        settings[case["bad"][0]] = _sv(case["bad"][1])
        trip = {"parsed": 0}
        orig = D.DateDataParser.get_date_data

        def tripwire(self, *a, **k):
            trip["parsed"] += 1
            return orig(self, *a, **k)

        def run():
            D.DateDataParser.get_date_data = tripwire
            try:
                if case["entry"] == "parse":
                    return dateparser.parse(case["string"], settings=settings)
                return D.DateDataParser(settings=settings)
            finally:
                D.DateDataParser.get_date_data = orig

        return run, (), {}, dict(trip=trip)

    @staticmethod
    def post(case, g, out):
        from dateparser.conf import SettingValidationError

        return {"rejected-with-SettingValidationError": out.raised(SettingValidationError),
                "string-never-parsed": g["trip"]["parsed"] == 0}


# --- exception escape at the catch sites -------------------------------------------------------------

ESC_FAMILIES = {
    "weekday": ["monday"],
    "time": [("H", 2), ":", ("T", 2)],
    "month": ["february"],
    "day-month": [("D", 2), " ", "february"],
    "full": [("D", 2), " ", "march", " ", ("Y", 4)],
    "two-digit-year": [("m", 2), "/", ("D", 2), "/", ("Y", 2)],
    "year": [("Y", 4)],
}


class Locale0:
    """a locale with its own date order, different from the settings' (what _try_parser reads)"""

    info = {"date_order": "DMY"}
    shortname = "xx"


class try_parser_escape:
    """_DateLocaleParser._try_parser (absolute parser): whatever the reference time in
    [0001-01-01, 9999-12-31] and the preference, nothing but a DateData or None comes out."""

    name = "date._DateLocaleParser._try_parser/no-escape"
    func = "dateparser.date._DateLocaleParser._try_parser"
    props = ["C02", "C03", "C01", "C07"]

    @classmethod
    def cases(cls, thorough=False):
        out = []
        for fam in ESC_FAMILIES:
            for pf in ("current_period", "past", "future"):
                for base in ("naive", "aware-utc"):
                    if base == "aware-utc" and not thorough and fam in ("full", "year", "day-month"):
                        continue
                    out.append(dict(family=fam, PREFER_DATES_FROM=pf, base=base))
        # a written zone: conversion to TIMEZONE at the ends of the range
        for to in ("UTC", "unset"):
            out.append(dict(family="full-time-zone", PREFER_DATES_FROM="current_period",
                            base="naive", TO=to))
        return out

    @staticmethod
    def setup(inp, case):
        import dateparser.date_parser as DP
        from dateparser.date import _DateLocaleParser
        from dateparser.parser import _parse_absolute
        from dateparser.timezone_parser import StaticTzInfo
        from pyvc import cal
        from pyvc.harness import build, make_settings

        tz = _dt.timezone.utc if case["base"] == "aware-utc" else None
        now = inp.datetime("now", tz=tz)
        kw = dict(RELATIVE_BASE=now, TIMEZONE="UTC", PREFER_DATES_FROM=case["PREFER_DATES_FROM"])
        ptz = None
        if case["family"] == "full-time-zone":
            tpl = [("Y", 4), "-", ("m", 2), "-", ("D", 2), " ", ("H", 2), ":", ("T", 2)]
            off = inp.int("ptz_off", -86399, 86399)
            ptz = StaticTzInfo("PTZ", cal.mk_timedelta(off * 1000000) if inp.symbolic
                               else _dt.timedelta(seconds=off))
            if case["TO"] == "UTC":
                kw["TO_TIMEZONE"] = "UTC"
        else:
            tpl = ESC_FAMILIES[case["family"]]
        st = make_settings(**kw)
        s, f = build(inp, tpl)
        DP.pop_tz_offset_from_string = lambda string, as_offset=True: (string, ptz)
        obj = _DateLocaleParser(Locale0(), s, None, settings=st)
        obj._translated_date = s
        order_before = st.DATE_ORDER
        return obj._try_parser, (), {"parse_method": _parse_absolute}, dict(st=st,
                                                                           order=order_before)

    @staticmethod
    def post(case, g, out):
        return {
            "no-exception-escapes": out.ok,
            "DATE_ORDER-restored-on-every-exit": g["st"].DATE_ORDER == g["order"],
        }


class argument_types:
    name = "date.DateDataParser/argument-types"
    func = "dateparser.date.DateDataParser"
    props = ["C02"]
    concrete_samples = 1

    @staticmethod
    def cases():
        return [dict(arg=a) for a in ("languages=str", "locales=str", "region=int",
                                      "try_previous_locales=int", "use_given_order=str",
                                      "settings=list", "date_string=bytes", "date_string=None",
                                      "date_string=int", "date_formats=str",
                                      "use_given_order-without-languages", "unknown-language",
                                      "unknown-locale", "conflicting-locales")]

    @staticmethod
    def setup(inp, case):
        import dateparser
        from dateparser.date import DateDataParser

        a = case["arg"]

        def run():
            if a == "languages=str":
                return DateDataParser(languages="en")
            if a == "locales=str":
                return DateDataParser(locales="en-US")
            if a == "region=int":
                return DateDataParser(region=1)
            if a == "try_previous_locales=int":
                return DateDataParser(try_previous_locales=1)
            if a == "use_given_order=str":
                return DateDataParser(languages=["en"], use_given_order="yes")
            if a == "settings=list":
                return DateDataParser(settings=["DATE_ORDER"])
            if a == "date_string=bytes":
                return DateDataParser().get_date_data(b"2020-01-01")
            if a == "date_string=None":
                return dateparser.parse(None)
            if a == "date_string=int":
                return dateparser.parse(20200101)
            if a == "date_formats=str":
                return dateparser.parse("2020-01-01", date_formats="%Y-%m-%d", languages=["en"])
            if a == "use_given_order-without-languages":
                return DateDataParser(use_given_order=True)
            if a == "unknown-language":
                return DateDataParser(languages=["xx"]).get_date_data("1 January 2020")
            if a == "unknown-locale":
                return DateDataParser(locales=["en-XX"]).get_date_data("1 January 2020")
            return DateDataParser(locales=["en-US", "en-GB"]).get_date_data("1 January 2020")

        return run, (), {}, {}

    @staticmethod
    def post(case, g, out):
        a = case["arg"]
        want = ValueError if a in ("use_given_order-without-languages", "unknown-language",
                                   "unknown-locale", "conflicting-locales") else TypeError
        return {"documented-exception-class": out.raised(want)}


CONTRACTS = [check_settings, validation_precedes_parsing, try_parser_escape, argument_types]


class parse_chain_first_valid:
    """_DateLocaleParser._parse (C02: "date_obj and locale are both None when nothing was
    recognised"; the parser chain is configurable through PARSERS): for every PARSERS list (every
    non-empty ordered selection of up to 3 of the 6 parser names in the thorough tier, a fixed family
    in the quick tier) and every combination of per-parser outcomes - a recognised DateData, the
    truthy DateData(date_obj=None) the timestamp/relative/custom-format parsers return on failure,
    or None - the result is the first recognised outcome in list order, and None (not a DateData
    with date_obj None) when no parser recognised anything.  The six parser methods are replaced by
    ghost outcomes; `_parse` and `_is_valid_date_data` are the real code."""

    name = "date._DateLocaleParser._parse/first-valid-or-None"
    func = "dateparser.date._DateLocaleParser._parse"
    props = ["C02", "C13"]
    NAMES = ["timestamp", "negative-timestamp", "relative-time", "custom-formats", "absolute-time",
             "no-spaces-time"]

    @classmethod
    def cases(cls, thorough=False):
        import itertools

        if thorough:
            lists = [list(p) for n in (1, 2, 3) for p in itertools.permutations(cls.NAMES, n)]
        else:
            lists = [["timestamp", "relative-time", "custom-formats", "absolute-time"],
                     ["absolute-time", "timestamp"], ["absolute-time", "relative-time"],
                     ["custom-formats"], ["absolute-time", "custom-formats"], ["relative-time"],
                     ["negative-timestamp"], ["no-spaces-time", "negative-timestamp"],
                     ["absolute-time"], ["timestamp", "absolute-time", "relative-time"]]
        return [dict(PARSERS=ps) for ps in lists]

    @staticmethod
    def setup(inp, case):
        from dateparser.date import DateData, _DateLocaleParser
        from pyvc.harness import make_settings

        st = make_settings(PARSERS=list(case["PARSERS"]))
        inst = _DateLocaleParser.__new__(_DateLocaleParser)
        inst._settings = st
        inst.locale = Locale0()
        inst.date_string = "x"
        inst.date_formats = None
        when = _dt.datetime(2020, 1, 2, 3, 4)
        outcomes, ghosts = {}, {}
        for k, name in enumerate(parse_chain_first_valid.NAMES):
            kind = inp.int("o%d" % k, 0, 2)  # 0 recognised, 1 DateData(None), 2 None
            ghosts[name] = kind
            good = DateData(date_obj=when + _dt.timedelta(days=k), period="day")
            empty = DateData(date_obj=None, period="day")

            def stub(kind=kind, good=good, empty=empty):
                if kind == 0:
                    return good
                if kind == 1:
                    return empty
                return None

            outcomes[name] = (stub, good)
        inst._parsers = {n: outcomes[n][0] for n in outcomes}
        return inst._parse, (), {}, dict(kinds=ghosts, goods={n: outcomes[n][1] for n in outcomes})

    @staticmethod
    def post(case, g, out):
        if not out.ok:
            return {"no-exception": False}
        r = out.value
        kinds, goods = g["kinds"], g["goods"]
        # the expected result, by list order
        none_before = True
        conds = []
        for name in case["PARSERS"]:
            hit = And(none_before, kinds[name] == 0)
            conds.append(Implies(hit, r is goods[name]))
            none_before = And(none_before, kinds[name] != 0)
        return {"no-exception": True,
                "first-recognised-outcome-in-PARSERS-order": And(*conds),
                "nothing-recognised=>None": Implies(none_before, r is None)}


CONTRACTS += [parse_chain_first_valid]


class parse_with_formats_range_ends:
    """date.parse_with_formats with TIMEZONE / TO_TIMEZONE conversions (C02: no OverflowError may
    escape; C12: the conversion keeps the instant): for every written date-time in [0001, 9999] -
    the range ends included - and fixed offsets up to +-14 h: no exception; a result exactly when
    the converted wall clock is representable, and then it is that wall clock."""

    name = "date.parse_with_formats/no-escape-at-the-range-ends"
    func = "dateparser.date.parse_with_formats"
    props = ["C02", "C12", "C14"]

    @staticmethod
    def cases(thorough=False):
        out = []
        for tz, to in (("UTC", "UTC+14:00"), ("UTC", "UTC-12:00"), ("UTC+14:00", "UTC"), ("UTC-12:00", "UTC"),
                       ("UTC+05:30", None), ("UTC", None)):
            for aware in ((True, False, "default") if thorough else (False,)):
                out.append(dict(TIMEZONE=tz, TO_TIMEZONE=to, AWARE=aware))
        return out

    @staticmethod
    def setup(inp, case):
        from dateparser.date import parse_with_formats as f
        from pyvc.harness import build, make_settings

        kw = dict(TIMEZONE=case["TIMEZONE"])
        if case["TO_TIMEZONE"]:
            kw["TO_TIMEZONE"] = case["TO_TIMEZONE"]
        if case["AWARE"] != "default":
            kw["RETURN_AS_TIMEZONE_AWARE"] = case["AWARE"]
        st = make_settings(**kw)
        s, fl = build(inp, [("Y", 4), "-", ("m", 2), "-", ("D", 2), " ", ("H", 2), ":", ("T", 2)])
        from pyvc.cal import dim

        valid = And(fl["Y"] >= 1, fl["m"] >= 1, fl["m"] <= 12, fl["D"] >= 1,
                    fl["D"] <= dim(fl["Y"], Ite(And(fl["m"] >= 1, fl["m"] <= 12), fl["m"], 1)),
                    fl["H"] <= 23, fl["T"] <= 59)
        inp.assume(valid)
        return f, (s, ["%Y-%m-%d %H:%M"], st), {}, dict(f=fl)

    @staticmethod
    def post(case, g, out):
        from pyvc.cal import dt_wall_us, ordinal

        if not out.ok:
            return {"no-exception-escapes": False}
        dd = out.value
        fl = g["f"]

        def off(name):
            if name in (None, "UTC"):
                return 0
            sign = 1 if name[3] == "+" else -1
            return sign * (int(name[4:6]) * 60 + int(name[7:9])) * 60 * 1000000

        DAY = 86400 * 1000000
        wall = ordinal(fl["Y"], fl["m"], fl["D"]) * DAY + (fl["H"] * 60 + fl["T"]) * 60 * 1000000
        if case["TO_TIMEZONE"]:
            want = wall - off(case["TIMEZONE"]) + off(case["TO_TIMEZONE"])
        else:
            want = wall
        in_range = And(want >= DAY, want < 3652060 * DAY)
        res = {"no-exception-escapes": True}
        if dd.date_obj is None:
            res["None-only-when-the-converted-value-leaves-the-range"] = Not(in_range)
        else:
            res["None-only-when-the-converted-value-leaves-the-range"] = True
            res["in-range=>the-written-instant-in-the-target-zone"] = Implies(
                in_range, dt_wall_us(dd.date_obj) == want)
        return res


CONTRACTS += [parse_with_formats_range_ends]


class parse_with_formats_compound_directives:
    """date.parse_with_formats with the compound directives that carry a year without spelling `%Y` /
    `%y` (`%c`, `%x`, ISO `%G %V %u`): whatever the clock's year, no exception escapes (C02), and
    for `%c` / `%x` a valid written date is returned as written (C14).  Found as a side observation
    of a round-5 sub-agent: `parse('Mon Feb 29 10:00:00 1988', date_formats=['%c'])` raised ValueError
    whenever the current year is not a leap year."""

    name = "date.parse_with_formats/compound-directives"
    func = "dateparser.date.parse_with_formats"
    props = ["C02", "C14"]

    FORMS = {
        "%c": ["Mon Feb ", ("D", 2), " ", ("H", 2), ":", ("T", 2), ":", ("S", 2), " ", ("Y", 4)],
        "%x": [("m", 2), "/", ("D", 2), "/", ("y", 2)],
        # ('%G %V %u' is the third such form; date.fromisocalendar is not modelled, so it is
        #  exercised on concrete inputs by the stand-in `totality` only)
    }

    @staticmethod
    def cases(thorough=False):
        out = []
        for fmt in parse_with_formats_compound_directives.FORMS:
            for pm in (("current", "first", "last") if thorough else ("current",)):
                out.append(dict(format=fmt, PREFER_MONTH_OF_YEAR=pm))
        return out

    @staticmethod
    def setup(inp, case):
        from dateparser.date import parse_with_formats as f
        from pyvc.cal import dim
        from pyvc.harness import build, make_settings

        st = make_settings(TIMEZONE="UTC", PREFER_MONTH_OF_YEAR=case["PREFER_MONTH_OF_YEAR"])
        s, fl = build(inp, parse_with_formats_compound_directives.FORMS[case["format"]])
        if case["format"] == "%c":
            inp.assume(And(fl["Y"] >= 1, fl["D"] >= 1, fl["D"] <= dim(fl["Y"], 2), fl["H"] <= 23,
                           fl["T"] <= 59, fl["S"] <= 59))
        else:
            Y = Ite(fl["y"] <= 68, 2000 + fl["y"], 1900 + fl["y"])
            inp.assume(And(fl["m"] >= 1, fl["m"] <= 12, fl["D"] >= 1,
                           fl["D"] <= dim(Y, Ite(And(fl["m"] >= 1, fl["m"] <= 12), fl["m"], 1))))
        return f, (s, [case["format"]], st), {}, dict(f=fl)

    @staticmethod
    def post(case, g, out):
        if not out.ok:
            return {"no-exception-escapes": False}
        res = {"no-exception-escapes": True}
        dd, fl = out.value, g["f"]
        if case["format"] in ("%c", "%x"):
            res["recognised"] = dd.date_obj is not None
            if dd.date_obj is not None:
                r = dd.date_obj
                if case["format"] == "%c":
                    res["the-written-date-and-time"] = And(
                        r.year == fl["Y"], r.month == 2, r.day == fl["D"], r.hour == fl["H"],
                        r.minute == fl["T"], r.second == fl["S"])
                else:
                    Y = Ite(fl["y"] <= 68, 2000 + fl["y"], 1900 + fl["y"])
                    res["the-written-date"] = And(r.year == Y, r.month == fl["m"], r.day == fl["D"])
                res["period-day"] = dd.period == "day"
        return res


CONTRACTS.append(parse_with_formats_compound_directives)
