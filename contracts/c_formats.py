"""Contracts: date.parse_with_formats and the custom-format fast path of DateDataParser.get_date_data
(C14; the custom-format clauses of C08 and C12).

datetime.strptime is executed symbolically from the stdlib's pure-Python _strptime (the same source
CPython runs), on the string the format itself renders with symbolic digits; the system clock is one
named symbolic instant for the whole call (ASSUME: the clock does not cross midnight during a call).
"""
from pyvc.spec import And, Implies, Ite, Not, Or, dim, same_fields

PREFS = ("first", "last", "current")
MONTHS = ["january", "february", "march", "april", "may", "june", "july", "august", "september",
          "october", "november", "december"]
DAYS = ["monday", "tuesday", "wednesday", "thursday", "friday", "saturday", "sunday"]

# directive -> (field name, digits) ; words handled separately
NUM = {"%Y": ("Y", 4), "%y": ("y", 2), "%m": ("m", 2), "%d": ("D", 2), "%H": ("H", 2),
       "%M": ("T", 2), "%S": ("S", 2), "%f": ("f", 6), "%I": ("I", 2)}

FORMATS = [
    "%Y-%m-%d", "%d/%m/%Y", "%m/%d/%Y", "%Y%m%d", "%d.%m.%y", "%Y-%m-%d %H:%M:%S",
    "%Y-%m-%dT%H:%M:%S", "%Y-%m-%d %H:%M:%S.%f", "%d-%m-%Y %I:%M %p", "%H:%M %d/%m/%Y",
    "%Y-%m", "%m/%Y", "%Y", "%m-%d", "%d", "%m", "%H:%M", "%Y %d", "%y%m%d%H%M",
    "%d %B %Y", "%B %d, %Y", "%d %b %Y", "%A, %d %B %Y", "%a %b %d %Y", "%B %Y", "%b %y", "%B",
    "date: %d.%m.%Y at %H.%M", "%y %b %d",
]


def split_format(fmt):
    out = []
    i = 0
    while i < len(fmt):
        if fmt[i] == "%" and i + 1 < len(fmt):
            out.append(fmt[i:i + 2])
            i += 2
        else:
            out.append(fmt[i])
            i += 1
    return out


def fmt_template(fmt, case):
    tpl = []
    for p in split_format(fmt):
        if p in NUM:
            tpl.append(NUM[p])
        elif p == "%B":
            tpl.append(case["month"].capitalize())
        elif p == "%b":
            tpl.append(case["month"][:3].capitalize())
        elif p == "%A":
            tpl.append(case["weekday"].capitalize())
        elif p == "%a":
            tpl.append(case["weekday"][:3].capitalize())
        elif p == "%p":
            tpl.append(case["ampm"])
        elif len(p) == 2 and p[0] == "%":
            raise ValueError("directive %s not in the family" % p)
        else:
            tpl.append(p)
    return tpl


class _Clock:
    """one symbolic instant for datetime.now()/today() during the call"""

    def __init__(self, inp):
        self.now = inp.datetime("clock", lo_year=1900, hi_year=2100)

    def install(self, inp):
        import datetime as _dt

        if not inp.symbolic:
            # replay: the library's own `datetime` names are rebound to a subclass whose clock is
            # the model's (everything else is the real class)
            fixed = self.now

            class FixedClock(_dt.datetime):
                @classmethod
                def now(cls, tz=None):
                    return fixed if tz is None else fixed.replace(tzinfo=_dt.timezone.utc).astimezone(tz)

                @classmethod
                def today(cls):
                    return fixed

            import dateparser.date as D
            import dateparser.utils as U

            D.datetime = FixedClock
            U.datetime = FixedClock
            return
        from pyvc import instrument

        instrument.ALWAYS[(_dt.datetime, "now")] = lambda tz=None: self.now
        instrument.ALWAYS[(_dt.datetime, "today")] = lambda: self.now


def _cases(thorough):
    out = []
    for fmt in FORMATS:
        parts = split_format(fmt)
        named = any(p in ("%B", "%b") for p in parts)
        wk = any(p in ("%A", "%a") for p in parts)
        has_m = any(p in ("%m", "%b", "%B") for p in parts)
        has_d = "%d" in parts
        months = (MONTHS if thorough else ["february", "november"]) if named else [None]
        prefs = [("current", "current")]
        if not has_d or not has_m:
            prefs = [(a, b) for a in PREFS for b in PREFS] if thorough else \
                [("first", "first"), ("last", "last"), ("current", "current"), ("last", "first")]
        for mo in months:
            for pd, pm in prefs:
                c = dict(fmt=fmt, PREFER_DAY_OF_MONTH=pd, PREFER_MONTH_OF_YEAR=pm)
                if mo:
                    c["month"] = mo
                if wk:
                    c["weekday"] = "tuesday"
                if "%p" in parts:
                    for ap in ("AM", "PM"):
                        out.append(dict(c, ampm=ap))
                else:
                    out.append(c)
    return out


def _expect(case, f, clock):
    """(valid, fields) the format expresses, completed per C08/C14"""
    fmt = case["fmt"]
    parts = split_format(fmt)
    has = lambda *ds: any(d in parts for d in ds)
    valid = []
    if has("%Y"):
        Y = f["Y"]
        valid.append(Y >= 1)
    elif has("%y"):
        Y = Ite(f["y"] <= 68, 2000 + f["y"], 1900 + f["y"])
    else:
        Y = clock.year
    if has("%m"):
        m = f["m"]
        valid.append(And(m >= 1, m <= 12))
    elif has("%B", "%b"):
        m = MONTHS.index(case["month"]) + 1
    else:
        m = {"first": 1, "last": 12, "current": clock.month}[case["PREFER_MONTH_OF_YEAR"]]
    # the library completes the day in the year strptime produced (1900 when the format has no
    # year) and swaps the year in afterwards: the *property* wants the length of the final month
    L = dim(Y, m)
    if has("%d"):
        D = f["D"]
        valid.append(And(D >= 1, D <= L))
        if not has("%Y", "%y"):
            # the statement excludes 29 February for year-less formats (strptime's default year)
            valid.append(Not(And(m == 2, D == 29)))
    else:
        pd = case["PREFER_DAY_OF_MONTH"]
        D = 1 if pd == "first" else (L if pd == "last" else Ite(clock.day <= L, clock.day, L))
    if has("%I"):
        h = f["I"]
        valid.append(And(h >= 1, h <= 12))
        H = Ite(h == 12, 0, h) + (12 if case["ampm"] == "PM" else 0)
    elif has("%H"):
        H = f["H"]
        valid.append(H <= 23)
    else:
        H = 0
    T = f.get("T", 0)
    S = f.get("S", 0)
    us = f.get("f", 0)
    if has("%M"):
        valid.append(T <= 59)
    if has("%S"):
        valid.append(S <= 59)
    if not has("%m", "%b", "%B"):
        period = "year"
    elif not has("%d"):
        period = "month"
    else:
        period = "day"
    return And(*valid) if valid else True, (Y, m, D, H, T, S, us), period


class parse_with_formats:
    name = "date.parse_with_formats"
    func = "dateparser.date.parse_with_formats"
    props = ["C14", "C08"]

    @classmethod
    def cases(cls, thorough=False):
        return _cases(thorough)

    @staticmethod
    def setup(inp, case):
        from dateparser.date import parse_with_formats as f
        from pyvc.harness import build, make_settings

        clock = _Clock(inp)
        clock.install(inp)
        st = make_settings(TIMEZONE="UTC", PREFER_DAY_OF_MONTH=case["PREFER_DAY_OF_MONTH"],
                           PREFER_MONTH_OF_YEAR=case["PREFER_MONTH_OF_YEAR"])
        s, fields = build(inp, fmt_template(case["fmt"], case))
        # a decoy format that cannot match comes first: formats are tried in order
        return f, (s, ["%Y ~~ %m", case["fmt"]], st), {}, dict(f=fields, clock=clock.now,
                                                               symbolic=inp.symbolic)

    @staticmethod
    def post(case, g, out):
        f, clock = g["f"], g["clock"]
        if not out.ok:
            return {"no-exception": False}
        dd = out.value
        valid, (Y, m, D, H, T, S, us), period = _expect(case, f, clock)
        parts = split_format(case["fmt"])
        if dd.date_obj is None:
            return {"no-exception": True, "valid=>parses": Not(valid)}
        r = dd.date_obj
        return {
            "no-exception": True,
            "valid=>parses": True,
            "valid=>what-the-format-expresses,-completed-per-preferences": Implies(
                valid, same_fields(r, Y, m, D, H, T, S, us)),
            "valid=>period": Implies(valid, dd.period == period),
            "valid=>naive": Implies(valid, r.tzinfo is None),
        }


class custom_format_first:
    """DateDataParser.get_date_data: if the raw string matches one of the given formats that reading
    is returned and no language work happens (the locale machinery is replaced by a tripwire)."""

    name = "date.DateDataParser.get_date_data/raw-format-first"
    func = "dateparser.date.DateDataParser.get_date_data"
    props = ["C14"]

    @classmethod
    def cases(cls, thorough=False):
        fmts = ["%y %b %d", "%y%m%d%H%M", "%y-%m-%dT%H:%M", "%d/%m/%Y", "%B %d, %Y"]
        return [dict(fmt=f, month="march", PREFER_DAY_OF_MONTH="current",
                     PREFER_MONTH_OF_YEAR="current") for f in fmts]

    @staticmethod
    def setup(inp, case):
        from dateparser.date import DateDataParser
        from pyvc.harness import build, make_settings

        clock = _Clock(inp)
        clock.install(inp)
        st = make_settings(TIMEZONE="UTC")
        s, fields = build(inp, fmt_template(case["fmt"], case))
        parser = DateDataParser.__new__(DateDataParser)
        parser._settings = st
        parser.try_previous_locales = False
        parser.use_given_order = False
        parser.languages = ["en"]
        parser.locales = None
        parser.region = None
        parser.detect_languages_function = None
        import collections

        parser.previous_locales = collections.OrderedDict()
        trip = {"language-work": 0}

        def tripwire(date_string):
            trip["language-work"] += 1
            return iter(())

        parser._get_applicable_locales = tripwire
        return parser.get_date_data, (s, [case["fmt"]]), {}, dict(f=fields, clock=clock.now,
                                                                  trip=trip, symbolic=inp.symbolic)

    @staticmethod
    def post(case, g, out):
        f, clock = g["f"], g["clock"]
        if not out.ok:
            return {"no-exception": False}
        dd = out.value
        valid, (Y, m, D, H, T, S, us), period = _expect(case, f, clock)
        if dd.date_obj is None:
            return {"no-exception": True, "valid=>format-reading-returned": Not(valid)}
        return {
            "no-exception": True,
            "valid=>format-reading-returned": Implies(
                valid, same_fields(dd.date_obj, Y, m, D, H, T, S, us)),
            "valid=>no-language-work": Implies(valid, g["trip"]["language-work"] == 0),
        }


CONTRACTS = [parse_with_formats, custom_format_first]
