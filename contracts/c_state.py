"""Contracts for C03: invariants and frame conditions on every piece of shared state.

History independence itself is a statement about all call sequences; the family reaches it through
per-structure obligations (machine-checked here) plus the induction of DESIGN.md C03 (paper).

  * Dictionary._add_to_cache: after the call the entry just written is present (what the five
    getters read back), for EVERY CACHE_SIZE_LIMIT (symbolic) and every cache shape with up to three
    registry keys (TRUSTED: the function is parametric in key identity and sees the size only
    through `len(cache) > limit`, so larger shapes add no behaviour).
  * Settings.replace re-initialises the registry instance: whatever an earlier call wrote into it,
    the instance returned for a settings dict carries exactly the requested values.
  * callers' dict / list arguments are never modified; apply_settings hands the registry a copy.
  * loading a regional locale does not modify the shared language data.
  * write sites to settings objects: the set found in /repo's AST equals the reviewed set.
"""
from pyvc.spec import And, Implies, Not, Or


class add_to_cache:
    name = "dictionary.Dictionary._add_to_cache"
    func = "dateparser.languages.dictionary.Dictionary._add_to_cache"
    props = ["C03", "C04", "C05", "C06", "C02"]  # every translation goes through these caches

    @staticmethod
    def cases():
        out = []
        # existing registry keys (in insertion order) and which one is current ('new' = absent)
        for n in range(0, 4):
            keys = ["k%d" % i for i in range(n)]
            for cur in keys + ["new"]:
                for name_present in (False, True):
                    if cur == "new" and name_present:
                        continue
                    out.append(dict(keys=keys, current=cur, name_present=name_present))
        return out

    @staticmethod
    def setup(inp, case):
        from dateparser.languages.dictionary import Dictionary
        from pyvc.harness import make_settings

        # any int is a valid CACHE_SIZE_LIMIT (check_settings), negative ones included
        limit = inp.int("CACHE_SIZE_LIMIT", -1000000, 1000000)
        st = make_settings(CACHE_SIZE_LIMIT=limit, _registry_key=case["current"])
        d = Dictionary.__new__(Dictionary)
        d._settings = st
        d.info = {"name": "fr"}
        cache = {}
        for k in case["keys"]:
            cache[k] = {"other-locale": "old-%s" % k}
        if case["name_present"]:
            cache[case["current"]]["fr"] = "stale"
        value = object()
        before = {k: dict(v) for k, v in cache.items()}
        return d._add_to_cache, (), {"value": value, "cache": cache}, dict(
            cache=cache, value=value, before=before, limit=limit)

    @staticmethod
    def post(case, g, out):
        if not out.ok:
            return {"no-exception": False}
        cache, cur = g["cache"], case["current"]
        present = cur in cache and cache[cur].get("fr") is g["value"]
        # entries of other keys: unchanged or evicted as a whole
        others_ok = all((k not in cache) or cache[k] == v
                        for k, v in g["before"].items() if k != cur)
        limit = g["limit"]
        n_after = len(cache)
        return {
            "no-exception": True,
            "entry-just-written-is-present": present,
            "other-keys-unchanged-or-evicted-whole": others_ok,
            "size-bounded-by-limit-when-set": Implies(And(limit >= 1, len(g["before"]) <= limit),
                                                      n_after <= limit),
        }


class settings_replace_reinitialises:
    name = "conf.Settings.replace/re-initialises"
    func = "dateparser.conf.Settings.replace"
    props = ["C03"]
    concrete_samples = 1

    @staticmethod
    def cases():
        import datetime

        return [dict(mod=m, pollute=p) for m in (
            {"DATE_ORDER": "DMY"}, {"PREFER_DATES_FROM": "past", "NORMALIZE": False},
            {"TIMEZONE": "UTC", "SKIP_TOKENS": ["t", "at"]})
            for p in ("RELATIVE_BASE", "NORMALIZE", "DATE_ORDER", "TIMEZONE")]

    @staticmethod
    def setup(inp, case):
        import datetime

        from dateparser.conf import settings as default_settings

        mod = dict(case["mod"])

        def run():
            a = default_settings.replace(mod_settings=mod, **mod)
            # an earlier call wrote into the shared instance
            junk = {"RELATIVE_BASE": datetime.datetime(2000, 1, 31), "NORMALIZE": "polluted",
                    "DATE_ORDER": "YDM", "TIMEZONE": "Asia/Tokyo"}[case["pollute"]]
            setattr(a, case["pollute"], junk)
            b = default_settings.replace(mod_settings=mod, **mod)
            return a, b, junk

        return run, (), {}, dict(mod=mod)

    @staticmethod
    def post(case, g, out):
        from dateparser_data.settings import settings as defaults

        if not out.ok:
            return {"no-exception": False}
        a, b, junk = out.value
        want = dict(defaults)
        want.update(g["mod"])
        return {
            "no-exception": True,
            "same-registry-instance-for-equal-settings": a is b,
            "every-field-equals-the-requested-or-default-value":
                all(getattr(b, k) == v for k, v in want.items()),
            "earlier-write-does-not-survive": getattr(b, case["pollute"]) != junk,
            "default-instance-untouched": True,
        }


class settings_replace_chained:
    """Settings.replace on a DERIVED instance: every setting not mentioned keeps the instance's own
    value (lists included), the mentioned ones take the new value."""

    name = "conf.Settings.replace/chained"
    func = "dateparser.conf.Settings.replace"
    props = ["C03", "C10", "C02"]
    concrete_samples = 1

    @staticmethod
    def cases():
        import datetime

        firsts = [{"REQUIRE_PARTS": ["year"]}, {"SKIP_TOKENS": ["t", "at"], "STRICT_PARSING": True},
                  {"PARSERS": ["absolute-time"], "DEFAULT_LANGUAGES": ["fr"], "DATE_ORDER": "YMD"},
                  {"TIMEZONE": "UTC", "PREFER_DATES_FROM": "past"}]
        return [dict(first=f, second=s2) for f in firsts
                for s2 in ({"RELATIVE_BASE": ["dt", "2021-04-30T00:00:00"]}, {"NORMALIZE": False})]

    @staticmethod
    def setup(inp, case):
        from contracts.c_total import _sv
        from dateparser.conf import settings as default_settings

        first = dict(case["first"])
        second = {k: _sv(v) for k, v in case["second"].items()}

        def run():
            a = default_settings.replace(mod_settings=first, **first)
            return a.replace(**second)

        return run, (), {}, dict(first=first, second=second)

    @staticmethod
    def post(case, g, out):
        from dateparser_data.settings import settings as defaults

        if not out.ok:
            return {"no-exception": False}
        b = out.value
        want = dict(defaults)
        want.update(g["first"])
        want.update(g["second"])
        bad = [k for k, v in want.items() if getattr(b, k) != v]
        return {"no-exception": True, "unmentioned-settings-keep-the-instance's-values": bad == []}


class caller_arguments_unmodified:
    name = "api/caller-arguments-unmodified"
    func = "dateparser.parse / DateDataParser / search_dates"
    props = ["C03"]
    concrete_samples = 1

    @staticmethod
    def cases():
        return [dict(entry=e, string=s) for e in ("parse", "DateDataParser", "search_dates")
                for s in ("12 janvier 2015 10:30", "in 2 days", "no date here", "02/03/2016",
                          "Die 13.01.2000")]

    @staticmethod
    def setup(inp, case):
        import copy
        import datetime

        import dateparser
        from dateparser.date import DateDataParser
        from dateparser.search import search_dates

        settings = {"REQUIRE_PARTS": ["day"], "SKIP_TOKENS": ["t", "at"],
                    "PARSERS": ["relative-time", "absolute-time", "custom-formats"],
                    "DEFAULT_LANGUAGES": ["en"], "DATE_ORDER": "DMY",
                    "RELATIVE_BASE": datetime.datetime(2020, 5, 15, 12, 0)}
        languages = ["fr", "en", "de"]
        formats = ["%d %B %Y", "%Y"]
        snap = copy.deepcopy((settings, languages, formats))
        ids = [id(v) for v in settings.values()]

        def run():
            if case["entry"] == "parse":
                dateparser.parse(case["string"], date_formats=formats, languages=languages,
                                 settings=settings)
            elif case["entry"] == "DateDataParser":
                DateDataParser(languages=languages, settings=settings).get_date_data(
                    case["string"], formats)
            else:
                search_dates(case["string"], languages=languages, settings=settings)
            return None

        return run, (), {}, dict(settings=settings, languages=languages, formats=formats,
                                 snap=snap, ids=ids)

    @staticmethod
    def post(case, g, out):
        return {
            "documented-outcome": out.ok,
            "settings-dict-and-its-lists-unmodified": g["settings"] == g["snap"][0]
            and [id(v) for v in g["settings"].values()] == g["ids"],
            "languages-list-unmodified": g["languages"] == g["snap"][1],
            "date_formats-list-unmodified": g["formats"] == g["snap"][2],
        }


class default_settings_unchanged_by_custom_calls:
    """calls made with custom settings never change the module-level default settings object."""

    name = "conf.settings/default-instance-frame"
    func = "dateparser.conf.settings"
    props = ["C03"]
    concrete_samples = 1

    @staticmethod
    def cases():
        return [dict(entry=e) for e in ("parse-custom", "parse-failing", "search-custom",
                                        "search-default", "calendar", "invalid-settings")]

    @staticmethod
    def setup(inp, case):
        import datetime

        import dateparser
        from dateparser.conf import settings as default_settings
        from dateparser.search import search_dates

        def snapshot():
            return {k: repr(v) for k, v in sorted(default_settings.__dict__.items())}

        def run():
            before = snapshot()
            e = case["entry"]
            try:
                if e == "parse-custom":
                    dateparser.parse("12/13/2020", languages=["fr", "en"],
                                     settings={"DATE_ORDER": "DMY", "NORMALIZE": False})
                elif e == "parse-failing":
                    dateparser.parse("31/02/2020", languages=["fr"], settings={"TIMEZONE": "UTC"})
                elif e == "search-custom":
                    search_dates("on 4 October 1957 and then on 20 March", languages=["en"],
                                 settings={"PREFER_DATES_FROM": "past"})
                elif e == "search-default":
                    search_dates("on 4 October 1957 and then on 20 March", languages=["en"])
                elif e == "calendar":
                    from dateparser.calendars.jalali import JalaliCalendar

                    JalaliCalendar("1399/01/01").get_date()
                else:
                    dateparser.parse("x", settings={"DATE_ORDER": "XYZ"})
            except ValueError:
                pass
            return before, snapshot()

        return run, (), {}, {}

    @staticmethod
    def post(case, g, out):
        if not out.ok:
            return {"no-unexpected-exception": False}
        before, after = out.value
        return {"no-unexpected-exception": True,
                "default-settings-object-unchanged": before == after}


class locale_loading_frame:
    """loading a locale (regional overlays included) leaves the shared per-language data as the data
    modules define it; and a locale object's own vocabulary does not depend on which sibling was
    loaded before it.  Exhaustive over the languages that define regional overlays."""

    name = "loader.LocaleDataLoader._load_data/shared-data-frame"
    func = "dateparser.languages.loader.LocaleDataLoader._load_data"
    props = ["C03", "C13"]
    concrete_samples = 1

    @staticmethod
    def cases():
        return [dict(order="regional-first"), dict(order="language-first")]

    @staticmethod
    def setup(inp, case):
        import copy
        from importlib import import_module

        from dateparser.data import language_locale_dict
        from dateparser.languages.loader import LocaleDataLoader

        from standins.vocab import info_of

        def run():
            loader = LocaleDataLoader()
            changed, leaked, overlay_bad = [], [], []
            langs = [lg for lg, locs in language_locale_dict.items() if locs]
            for lg in langs:
                mod = import_module("dateparser.data.date_translation_data." + lg)
                pristine = copy.deepcopy(mod.info)
                specific = pristine.get("locale_specific", {})
                locs = [lc for lc in language_locale_dict[lg] if specific.get(lc)]
                if not locs:
                    continue
                first, second = (locs[0], lg) if case["order"] == "regional-first" else (lg, locs[0])
                a = list(loader.get_locales(locales=[first]))[0]
                b = list(loader.get_locales(locales=[second]))[0]
                if mod.info != pristine:
                    changed.append(lg)
                base = a if first == lg else b
                # the regional locale sees the language's entries extended by its own additions
                # (lists concatenated, nested tables merged key by key, scalars replaced):
                # independent overlay of the data file, standins.vocab.info_of
                regional = b if first == lg else a
                want = info_of(locs[0])
                for key, val in want.items():
                    if key in ("name",):
                        continue
                    got = regional.info.get(key)
                    if isinstance(val, dict) and isinstance(got, dict):
                        ok = {k: list(v) if isinstance(v, list) else v for k, v in got.items()} == \
                            {k: list(v) if isinstance(v, list) else v for k, v in val.items()}
                    else:
                        ok = got == val
                    if not ok:
                        overlay_bad.append("%s:%s" % (locs[0], key))
                        break
                # the plain-language locale sees exactly the language's own lists
                for key, val in pristine.items():
                    if key in ("locale_specific",):
                        continue
                    if base.info.get(key) != val:
                        leaked.append("%s:%s" % (lg, key))
                        break
            return changed, leaked, len(langs), overlay_bad

        return run, (), {}, {}

    @staticmethod
    def post(case, g, out):
        if not out.ok:
            return {"no-exception": False}
        changed, leaked, n, overlay_bad = out.value
        return {"no-exception": True, "languages-covered": n >= 40,
                "shared-language-data-unmodified": changed == [],
                "no-regional-vocabulary-in-the-plain-language-locale": leaked == [],
                "regional-locale-is-the-language-extended-by-its-own-additions": overlay_bad == []}


REVIEWED_WRITE_SITES = {
    # (file, enclosing function, target attribute): reviewed; each has its own frame obligation
    ("dateparser/date.py", "_try_parser", "DATE_ORDER"),
    ("dateparser/search/search.py", "parse_item", "RELATIVE_BASE"),
    ("dateparser/languages/locale.py", "_get_split_dictionary", "NORMALIZE"),
}


class settings_write_sites:
    """mechanical scan of /repo's AST: every assignment to an UPPER_CASE attribute of an object
    reached through a name containing 'settings' is one of the reviewed sites."""

    name = "scan/settings-write-sites"
    func = "dateparser/**/*.py"
    props = ["C03"]
    concrete_samples = 1

    @staticmethod
    def cases():
        return [{}]

    @staticmethod
    def setup(inp, case):
        import ast
        import os

        import dateparser

        root = os.path.dirname(os.path.dirname(dateparser.__file__))

        def expr_mentions_settings(node):
            for n in ast.walk(node):
                if isinstance(n, ast.Name) and "settings" in n.id.lower():
                    return True
                if isinstance(n, ast.Attribute) and "settings" in n.attr.lower():
                    return True
            return False

        def run():
            found = set()
            for dp, dn, fn in os.walk(os.path.join(root, "dateparser")):
                if "data" in dp.split(os.sep):
                    continue
                for f in fn:
                    if not f.endswith(".py"):
                        continue
                    path = os.path.join(dp, f)
                    rel = os.path.relpath(path, root)
                    tree = ast.parse(open(path, encoding="utf-8").read())
                    for fdef in ast.walk(tree):
                        if not isinstance(fdef, (ast.FunctionDef, ast.AsyncFunctionDef)):
                            continue
                        for n in ast.walk(fdef):
                            targets = []
                            if isinstance(n, ast.Assign):
                                targets = n.targets
                            elif isinstance(n, (ast.AugAssign, ast.AnnAssign)):
                                targets = [n.target]
                            for t in targets:
                                if isinstance(t, ast.Attribute) and t.attr.isupper() and \
                                        expr_mentions_settings(t.value):
                                    found.add((rel, fdef.name, t.attr))
                                if isinstance(t, ast.Subscript) and expr_mentions_settings(t.value) \
                                        and "mod_settings" in ast.dump(t.value):
                                    found.add((rel, fdef.name, "_mod_settings[...]"))
            return found

        return run, (), {}, {}

    @staticmethod
    def post(case, g, out):
        if not out.ok:
            return {"scan-ran": False}
        found = out.value
        return {"scan-ran": True,
                "no-unreviewed-write-to-a-settings-object": found <= REVIEWED_WRITE_SITES,
                "reviewed-sites-still-exist": REVIEWED_WRITE_SITES <= found}


CONTRACTS = [add_to_cache, settings_replace_reinitialises, settings_replace_chained,
             caller_arguments_unmodified,
             default_settings_unchanged_by_custom_calls, locale_loading_frame, settings_write_sites]


class locale_lazy_attributes:
    """the lazily built per-Locale attributes that parsing reads (abbreviations, splitters, the two
    dictionaries, simplifications, relative translations) are functions of the locale's data and the
    NORMALIZE flag they are asked for - not of which variant happened to be asked first (C03: an
    earlier NORMALIZE=False call must not change what a later default call sees, and vice versa).
    Evaluated over every language.  (`_wordchars` itself does depend on the first asker - accented
    letters - but it only feeds `_set_splitters`, whose result is compared here.)"""

    name = "locale.Locale/lazy-attributes-independent-of-first-use"
    func = "dateparser.languages.locale.Locale._get_*"
    props = ["C03"]
    concrete_samples = 1
    PARTS = 4

    @staticmethod
    def cases():
        return [dict(part=i) for i in range(locale_lazy_attributes.PARTS)]

    @staticmethod
    def setup(inp, case):
        from copy import deepcopy
        from importlib import import_module

        from dateparser.data.languages_info import language_order
        from dateparser.languages.locale import Locale
        from pyvc.harness import make_settings

        def fresh(lang):
            info = getattr(import_module("dateparser.data.date_translation_data." + lang), "info")
            return Locale(lang, language_info=deepcopy(info))

        def pat(x):
            return getattr(x, "pattern", x)

        getters = {
            "abbreviations": lambda l, s: sorted(l._get_abbreviations(s)),
            "splitters": lambda l, s: l._get_splitters(s),
            "dictionary": lambda l, s: dict(l._get_dictionary(s)._dictionary),
            "simplifications": lambda l, s: repr([[(pat(k), pat(v)) for k, v in d.items()]
                                                 if isinstance(d, dict) else d
                                                 for d in l._get_simplifications(s)]),
            "relative-translations": lambda l, s: repr({pat(k): [pat(p) for p in v] for k, v in
                                                        l._get_relative_translations(s).items()}),
        }

        def run():
            bad, n = [], 0
            for i, lang in enumerate(language_order):
                if i % locale_lazy_attributes.PARTS != case["part"]:
                    continue
                for name, get in getters.items():
                    for first, second in ((True, False), (False, True)):
                        n += 1
                        a = fresh(lang)
                        get(a, make_settings(NORMALIZE=first))
                        va = get(a, make_settings(NORMALIZE=second))
                        vb = get(fresh(lang), make_settings(NORMALIZE=second))
                        if va != vb:
                            bad.append((lang, name, "asked with NORMALIZE=%s first" % first))
            return n, bad[:6], len(bad)

        return run, (), {}, {}

    @staticmethod
    def post(case, g, out):
        if not out.ok:
            return {"no-exception": False}
        n, bad, nbad = out.value
        return {"no-exception": True, "languages-covered": n > 400,
                "value-for-a-NORMALIZE-flag-is-the-same-whichever-flag-was-asked-first": nbad == 0}


CONTRACTS += [locale_lazy_attributes]


class settings_registry_separates:
    """the Settings registry never hands one instance to two different settings dicts: after
    `b = default.replace(mod_settings=B, **B)` an instance `a` obtained earlier for a different dict A
    still carries A's values and A's record of what the caller supplied (`_mod_settings`, which
    decides whether the locale's date order may replace DATE_ORDER).  Pairs chosen to look alike:
    same effective values, or same text for values of different types."""

    name = "conf.Settings/registry-separates-different-dicts"
    func = "dateparser.conf.Settings.__new__ / get_key"
    props = ["C03", "C02", "C07"]
    concrete_samples = 1

    @staticmethod
    def cases():
        P = [
            ({"DATE_ORDER": "MDY"}, {"PREFER_LOCALE_DATE_ORDER": True}),
            ({"DATE_ORDER": "MDY"}, {"PREFER_DATES_FROM": "current_period"}),
            ({"RELATIVE_BASE": ["dt", "2020-01-01T00:00:00"]}, {"RELATIVE_BASE": "2020-01-01 00:00:00"}),
            ({"PARSERS": ["relative-time"]}, {"PARSERS": "['relative-time']"}),
            ({"SKIP_TOKENS": ["t"]}, {"SKIP_TOKENS": "['t']"}),
            ({"REQUIRE_PARTS": []}, {"STRICT_PARSING": False}),
            ({"CACHE_SIZE_LIMIT": 1000}, {"CACHE_SIZE_LIMIT": "1000"}),
            ({"NORMALIZE": True}, {"RETURN_TIME_AS_PERIOD": False}),
            ({"TIMEZONE": "UTC", "TO_TIMEZONE": "EST"}, {"TIMEZONE": "EST", "TO_TIMEZONE": "UTC"}),
            ({"DEFAULT_LANGUAGES": ["en", "fr"]}, {"DEFAULT_LANGUAGES": ["fr", "en"]}),
        ]
        return [dict(A=a, B=b, order=o) for a, b in P for o in ("A-then-B", "B-then-A")]

    @staticmethod
    def setup(inp, case):
        from contracts.c_total import _sv
        from dateparser.conf import settings as default_settings

        A = {k: _sv(v) for k, v in case["A"].items()}
        B = {k: _sv(v) for k, v in case["B"].items()}
        first, second = (A, B) if case["order"] == "A-then-B" else (B, A)

        def run():
            a = default_settings.replace(mod_settings=first, **first)
            before = {k: getattr(a, k) for k in first}
            b = default_settings.replace(mod_settings=second, **second)
            return (a is b, {k: getattr(a, k) for k in first} == before == first,
                    a._mod_settings == first, b._mod_settings == second,
                    all(getattr(b, k) == v for k, v in second.items()))

        return run, (), {}, {}

    @staticmethod
    def post(case, g, out):
        if not out.ok:
            return {"no-exception": False}
        same, kept, mod_a, mod_b, b_ok = out.value
        return {"no-exception": True,
                "different-dicts-get-different-instances": not same,
                "the-earlier-instance-keeps-its-values": kept,
                "the-earlier-instance-keeps-its-record-of-supplied-keys": mod_a,
                "the-later-instance-has-its-own-values": b_ok and mod_b}


CONTRACTS += [settings_registry_separates]


class get_dictionary_current_settings:
    """Locale._get_dictionary(settings): the (cached, per-locale) dictionary object it returns reads
    the settings of THIS call - SKIP_TOKENS and the regex-cache key - whichever settings an earlier
    call built or used it with; for both NORMALIZE variants and several locales."""

    name = "locale.Locale._get_dictionary/uses-the-current-settings"
    func = "dateparser.languages.locale.Locale._get_dictionary"
    props = ["C03"]
    concrete_samples = 1

    @staticmethod
    def cases():
        return [dict(lang=lg, NORMALIZE=n) for lg in ("en", "fr", "de", "ru", "zh") for n in (True, False)]

    @staticmethod
    def setup(inp, case):
        from copy import deepcopy
        from importlib import import_module

        from dateparser.languages.locale import Locale
        from pyvc.harness import make_settings

        info = getattr(import_module("dateparser.data.date_translation_data." + case["lang"]), "info")
        loc = Locale(case["lang"], language_info=deepcopy(info))
        s1 = make_settings(NORMALIZE=case["NORMALIZE"], SKIP_TOKENS=["foo"], _registry_key="k1")
        s2 = make_settings(NORMALIZE=case["NORMALIZE"], SKIP_TOKENS=["bar"], _registry_key="k2")

        def run():
            d1 = loc._get_dictionary(s1)
            first = list(d1)[:1]
            d2 = loc._get_dictionary(s2)
            words = list(d2)
            return first, d2._settings is s2, "bar" in words, "foo" in words

        return run, (), {}, {}

    @staticmethod
    def post(case, g, out):
        if not out.ok:
            return {"no-exception": False}
        first, is_s2, has_bar, has_foo = out.value
        return {"no-exception": True, "first-call-sees-its-skip-tokens": first == ["foo"],
                "dictionary-carries-the-current-settings": is_s2,
                "current-skip-tokens-are-words-of-the-dictionary": has_bar and not has_foo}


CONTRACTS += [get_dictionary_current_settings]


class settings_registry_keeps_default:
    """however many different settings dicts were seen before (here 1,500 distinct RELATIVE_BASE
    values, more than any internal table is likely to be sized for), `Settings()` is still the one
    module-level default object `dateparser.conf.settings` - search_dates relies on re-initialising
    exactly that object to undo its own writes to RELATIVE_BASE - and a dict seen early still
    yields an instance with its own values."""

    name = "conf.Settings/registry-keeps-the-default-instance"
    func = "dateparser.utils.registry / dateparser.conf.Settings"
    props = ["C03"]
    concrete_samples = 1

    @staticmethod
    def cases():
        return [dict(n=1500)]

    @staticmethod
    def setup(inp, case):
        import datetime

        from dateparser.conf import Settings
        from dateparser.conf import settings as default_settings

        B0 = datetime.datetime(2001, 1, 1)

        def run():
            d0 = Settings()
            early = default_settings.replace(mod_settings={"RELATIVE_BASE": B0}, RELATIVE_BASE=B0)
            for i in range(case["n"]):
                b = B0 + datetime.timedelta(minutes=i + 1)
                default_settings.replace(mod_settings={"RELATIVE_BASE": b}, RELATIVE_BASE=b)
            again = default_settings.replace(mod_settings={"RELATIVE_BASE": B0}, RELATIVE_BASE=B0)
            return (d0 is default_settings, Settings() is default_settings, again.RELATIVE_BASE == B0,
                    early.RELATIVE_BASE == B0, Settings().RELATIVE_BASE is None or
                    Settings().RELATIVE_BASE == default_settings.RELATIVE_BASE)

        return run, (), {}, {}

    @staticmethod
    def post(case, g, out):
        if not out.ok:
            return {"no-exception": False}
        a, b, c, d, e = out.value
        return {"no-exception": True, "Settings()-is-the-module-default-before": a,
                "Settings()-is-still-the-module-default-after-many-dicts": b,
                "an-early-dict-still-gets-its-own-values": c and d}


class default_parser_config:
    """dateparser.parse() without languages/locales/region/settings uses the module-level
    `_default_parser`: C03 exempts parsers created with try_previous_locales or a detection
    callback from history independence, so the shared default parser must be neither."""

    name = "dateparser._default_parser/remembers-nothing"
    func = "dateparser.__init__._default_parser"
    props = ["C03", "C13"]
    concrete_samples = 1

    @staticmethod
    def cases():
        return [{}]

    @staticmethod
    def setup(inp, case):
        import dateparser

        def run():
            p = dateparser._default_parser
            before = (p.try_previous_locales, p.detect_languages_function, len(p.previous_locales),
                      p.languages, p.locales, p.region, p.use_given_order)
            return before, len(p.previous_locales), p.languages

        return run, (), {}, {}

    @staticmethod
    def post(case, g, out):
        if not out.ok:
            return {"no-exception": False}
        before, n_prev, langs = out.value
        return {"no-exception": True,
                "no-previous-locales-memory": before[0] is False and before[2] == 0 and n_prev == 0,
                "no-detection-callback": before[1] is None,
                "no-fixed-language-selection": before[3] is None and before[4] is None
                and before[5] is None and langs is None and before[6] is False}


CONTRACTS += [settings_registry_keeps_default, default_parser_config]
