"""Contract: dateparser/timezone_parser.py `_load_offsets` (C19) over a ghost file system.

The file system and pickle are replaced, for the duration of the call, by models installed in the
module's own namespace (`open`, `pickle`), so the real body of `_load_offsets` runs unchanged:

  ASSUME: open(path, 'rb') raises FileNotFoundError iff the file is missing;
  ASSUME: pickle.load on a damaged stream raises an exception of SOME class derived from Exception
          (case split over every concrete builtin Exception class + pickle's own), or returns an
          arbitrary object (case split over shapes); on the intact stream it returns what was dumped;
  ASSUME: open(path, 'wb') + pickle.dump write completely (the write itself is not interrupted).
The first assumption family is checked against the real file by the stand-in standins.tzcache_prefixes.
"""
import builtins

from pyvc.spec import And

_EXC_NAMES = sorted(
    n for n in dir(builtins)
    if isinstance(getattr(builtins, n), type) and issubclass(getattr(builtins, n), Exception)
    and n not in ("Exception",) and not issubclass(getattr(builtins, n), Warning)
    and n not in ("ExceptionGroup", "BaseExceptionGroup")
)
EXC_CASES = _EXC_NAMES + ["pickle.UnpicklingError", "pickle.PickleError", "Exception"]
# a well-formed pickle of a *different* four-element sequence is outside the statement (with
# BUILD_TZ_CACHE unset the file's content is trusted by design: that is C16's subject)
JUNK_CASES = ["none", "int", "empty-tuple", "3-tuple", "5-tuple"]


def _make_exc(name):
    import pickle

    if name.startswith("pickle."):
        return getattr(pickle, name.split(".")[1])("damaged")
    cls = getattr(builtins, name)
    try:
        if issubclass(cls, UnicodeError) and cls is not UnicodeError:
            if cls is UnicodeDecodeError:
                return cls("utf-8", b"x", 0, 1, "damaged")
            if cls is UnicodeEncodeError:
                return cls("utf-8", "x", 0, 1, "damaged")
            if cls is UnicodeTranslateError:
                return cls("x", 0, 1, "damaged")
        return cls("damaged")
    except Exception:
        return cls()


def _junk(name):
    return {"none": None, "int": 7, "empty-tuple": (), "3-tuple": (1, [], None),
            "5-tuple": (1, [], None, None, 0), "str4": "abcd",
            "4-tuple-of-none": (None, None, None, None)}[name]


class _FS:
    """ghost file system with one file"""

    def __init__(self, state, content=None):
        self.state = state  # 'missing' | 'intact' | 'damaged'
        self.content = content  # object that pickle.load returns for 'intact'
        self.behaviour = None
        self.writes = 0
        self.reads = 0

    def open(self, path, mode="r", *a, **k):
        fs = self
        if "r" in mode:
            if fs.state == "missing":
                raise FileNotFoundError(2, "No such file or directory", str(path))
            fs.reads += 1
            return _File(fs, "rb")
        fs.state = "being-written"
        return _File(fs, "wb")


class _File:
    def __init__(self, fs, mode):
        self.fs = fs
        self.mode = mode

    def __enter__(self):
        return self

    def __exit__(self, *a):
        if self.mode == "wb" and self.fs.state == "being-written":
            self.fs.state = "empty"  # opened for writing, nothing dumped
        return False


class _Pickle:
    def __init__(self, fs):
        import pickle

        self.fs = fs
        self.UnpicklingError = pickle.UnpicklingError
        self.PickleError = pickle.PickleError
        self.HIGHEST_PROTOCOL = pickle.HIGHEST_PROTOCOL

    def load(self, file, **k):
        fs = self.fs
        if fs.state == "intact":
            return fs.content
        kind, what = fs.behaviour
        if kind == "raise":
            raise _make_exc(what)
        return _junk(what)

    def dump(self, obj, file, protocol=None, **k):
        assert file.mode == "wb"
        self.fs.content = obj
        self.fs.state = "intact"
        self.fs.writes += 1


def _shipped():
    """the table an import with the intact, shipped cache yields (spec side of "the same table")"""
    import pickle

    from dateparser import timezone_parser as TP

    with open(str(TP.CACHE_PATH), "rb") as f:
        _, table, rx_cs, rx_ci = pickle.load(f)
    return table, rx_cs, rx_ci


def _table_sig(table):
    return [(n, i["regex"].pattern, int(i["regex"].flags), i["offset"]) for n, i in table]


class load_offsets:
    name = "timezone_parser._load_offsets"
    func = "dateparser.timezone_parser._load_offsets"
    props = ["C19", "C11"]  # C11: the table a rebuild produces is the table the sources define
    concrete_samples = 1  # no symbolic inputs: one concrete evaluation per case

    @staticmethod
    def cases():
        out = [dict(file="missing"), dict(file="intact")]
        out += [dict(file="damaged", load="raise", what=e) for e in EXC_CASES]
        out += [dict(file="damaged", load="return", what=j) for j in JUNK_CASES]
        return out

    @staticmethod
    def setup(inp, case):
        import pickle

        from dateparser import timezone_parser as TP

        real_cache = str(TP.CACHE_PATH)
        fs = _FS(case["file"])
        if case["file"] == "intact":
            with open(real_cache, "rb") as f:
                fs.content = pickle.load(f)
        elif case["file"] == "damaged":
            fs.behaviour = (case["load"], case["what"])

        def run():
            saved = {k: TP.__dict__.get(k) for k in ("open", "pickle")}
            TP.__dict__["open"] = fs.open
            TP.__dict__["pickle"] = _Pickle(fs)
            try:
                TP._tz_offsets = TP._search_regex = TP._search_regex_ignorecase = None
                TP._load_offsets("GHOST/dateparser_tz_cache.pkl", None)
                first = (TP._tz_offsets, TP._search_regex, TP._search_regex_ignorecase)
                state_after_first = fs.state
                writes_first = fs.writes
                # second import: must load what the first one left behind
                TP._tz_offsets = TP._search_regex = TP._search_regex_ignorecase = None
                fs.behaviour = ("raise", "EOFError")  # anything but an intact file would show
                TP._load_offsets("GHOST/dateparser_tz_cache.pkl", None)
                second = (TP._tz_offsets, TP._search_regex, TP._search_regex_ignorecase)
                return dict(first=first, second=second, state=state_after_first,
                            writes_first=writes_first, writes_total=fs.writes)
            finally:
                for k, v in saved.items():
                    if v is None:
                        TP.__dict__.pop(k, None)
                    else:
                        TP.__dict__[k] = v
                # leave the module as a normal import would
                with open(real_cache, "rb") as f:
                    (_, TP._tz_offsets, TP._search_regex, TP._search_regex_ignorecase) = \
                        pickle.load(f)

        return run, (), {}, dict(fs=fs)

    @staticmethod
    def post(case, g, out):
        import regex as re

        if not out.ok:
            return {"no-exception-escapes": False}
        r = out.value
        table, s_cs, s_ci = _shipped()
        want = _table_sig(table)

        def good(t):
            offs, rx_cs, rx_ci = t
            return And(
                offs is not None and _table_sig(offs) == want,
                rx_cs is not None and rx_cs.pattern == s_cs.pattern and rx_cs.flags == s_cs.flags
                and not (rx_cs.flags & re.IGNORECASE),
                rx_ci is not None and rx_ci.pattern == s_ci.pattern and rx_ci.flags == s_ci.flags
                and bool(rx_ci.flags & re.IGNORECASE),
            )

        res = {
            "no-exception-escapes": True,
            "same-table-as-with-the-intact-cache": good(r["first"]),
            "cache-complete-afterwards": r["state"] == "intact",
            "second-import-loads-the-same-table": good(r["second"]),
            "second-import-does-not-rewrite": r["writes_total"] == r["writes_first"],
        }
        if case["file"] == "intact":
            res["intact-cache-not-rewritten"] = r["writes_first"] == 0
        else:
            res["damaged-or-missing-cache-rewritten-once"] = r["writes_first"] == 1
        return res


CONTRACTS = [load_offsets]
