"""Contracts: dateparser/timezone_parser.py — pop_tz_offset_from_string and StaticTzInfo (C11), and
the "no zone is invented" obligations for numeric / standard skeletons (C07, C01).

pop_tz_offset_from_string runs on the REAL table (773 compiled patterns, read from the imported
module); the date-time body and the digits of the written offset are symbolic, so one obligation
covers every offset value of a spelling family.  Which table entry matches which spelling first is
decided by the symbolic regex matcher along each path.
"""
from pyvc.spec import And, Implies, Ite, Not, Or

BODY = [("Y", 4), "-", ("m", 2), "-", ("D", 2), " ", ("H", 2), ":", ("T", 2), ":", ("S", 2)]
# spelling families: (prefix, hour digits, ':' before minutes?, minute digits)
SPELLINGS = {
    "+HHMM": ("", 2, False, 2),
    "+HH:MM": ("", 2, True, 2),
    "UTC+HH:MM": ("UTC", 2, True, 2),
    "GMT+HH:MM": ("GMT", 2, True, 2),
    "UTC+H:MM": ("UTC", 1, True, 2),
    "UTC+HH": ("UTC", 2, False, 0),
    "UTC+H": ("UTC", 1, False, 0),
    "GMT+H": ("GMT", 1, False, 0),
    "UTC+HHMM": ("UTC", 2, False, 2),
    "GMT+HHMM": ("GMT", 2, False, 2),
}


def supported_offsets():
    """the UTC offsets the library lists (seconds), from the real source table"""
    from dateparser.timezones import timezone_info_list

    out = set()
    for name, secs in timezone_info_list[0]["timezones"]:
        out.add(secs)
    return sorted(out)


class pop_tz_written_offset:
    name = "timezone_parser.pop_tz_offset_from_string/written-offset"
    func = "dateparser.timezone_parser.pop_tz_offset_from_string"
    props = ["C11"]

    @classmethod
    def cases(cls, thorough=False):
        fams = list(SPELLINGS) if thorough else ["+HHMM", "+HH:MM", "UTC+H:MM", "UTC+HH", "GMT+H",
                                                 "UTC+HH:MM"]
        return [dict(spelling=f, sign=s) for f in fams for s in ("+", "-")]

    @staticmethod
    def setup(inp, case):
        from dateparser.timezone_parser import pop_tz_offset_from_string as f
        from pyvc.harness import build

        prefix, hd, colon, md = SPELLINGS[case["spelling"]]
        tpl = list(BODY) + [" ", prefix, case["sign"], ("h", hd)]
        if md:
            tpl += ([":"] if colon else []) + [("n", md)]
        s, fields = build(inp, tpl)
        body, _ = None, None
        return f, (s,), {}, dict(s=s, f=fields, md=md)

    @staticmethod
    def post(case, g, out):
        from pyvc.cal import _td_us

        if not out.ok:
            return {"no-exception": False}
        f = g["f"]
        hh = f["h"]
        mm = f["n"] if g["md"] else 0
        sgn = 1 if case["sign"] == "+" else -1
        secs = sgn * (hh * 3600 + mm * 60)
        sup = supported_offsets()
        # -00:00 / +00:00 both listed with offset 0
        is_supported = Or(*[And(secs == v, mm <= 59) for v in sup])
        rest, tz = out.value
        body_len = 19
        res = {"no-exception": True}
        if tz is None:
            res["supported-offset=>recognised"] = Not(is_supported)
            return res
        res["supported-offset=>recognised"] = True
        res["supported-offset=>exactly-the-written-offset"] = Implies(
            is_supported, _td_us(tz.utcoffset(None)) == secs * 1000000)
        res["supported-offset=>body-kept-intact"] = Implies(
            is_supported, And(len(rest) >= body_len, rest[:body_len] == g["s"][:body_len],
                              len(rest.strip()) == body_len))
        return res


class pop_tz_no_zone_invented:
    """strings that carry no zone: (string unchanged, None).  Families: the numeric three-field
    dates of C07 and the ISO skeletons of C01.  Split by whether a '-' precedes a four-digit
    year at the end of the string (the offset grammar's inherent ambiguity, known finding)."""

    name = "timezone_parser.pop_tz_offset_from_string/no-zone-invented"
    func = "dateparser.timezone_parser.pop_tz_offset_from_string"
    props = ["C07", "C01", "C11"]

    @classmethod
    def cases(cls, thorough=False):
        out = []
        for sep in ("dash", "slash", "dot", "space"):
            for ypos in (0, 1, 2):
                out.append(dict(family="numeric", sep=sep, ypos=ypos, time=False))
                out.append(dict(family="numeric", sep=sep, ypos=ypos, time=True))
        for fam in ("iso-date", "iso-hm", "iso-hms", "iso-hms-f6", "words", "words-time"):
            out.append(dict(family=fam))
        return out

    @staticmethod
    def template(case):
        from contracts.c_parser import SEPS

        fam = case["family"]
        if fam == "numeric":
            sep = SEPS[case["sep"]]
            tpl = []
            k = 0
            for i in range(3):
                if i:
                    tpl.append(sep)
                if i == case["ypos"]:
                    tpl.append(("Y", 4))
                else:
                    tpl.append(("AB"[k], 2))
                    k += 1
            if case["time"]:
                tpl += [" ", ("H", 2), ":", ("T", 2)]
            return tpl
        iso = [("Y", 4), "-", ("m", 2), "-", ("D", 2)]
        if fam == "iso-date":
            return iso
        if fam == "iso-hm":
            return iso + [" ", ("H", 2), ":", ("T", 2)]
        if fam == "iso-hms":
            return iso + [" ", ("H", 2), ":", ("T", 2), ":", ("S", 2)]
        if fam == "iso-hms-f6":
            return iso + [" ", ("H", 2), ":", ("T", 2), ":", ("S", 2), ".", ("f", 6)]
        if fam == "words":
            return ["tuesday ", ("D", 2), " november ", ("Y", 4)]
        return ["november ", ("D", 2), " ", ("Y", 4), " ", ("H", 2), ":", ("T", 2), " pm"]

    @staticmethod
    def setup(inp, case):
        from dateparser.timezone_parser import pop_tz_offset_from_string as f
        from pyvc.harness import build

        s, fields = build(inp, pop_tz_no_zone_invented.template(case))
        return f, (s,), {}, dict(s=s)

    @staticmethod
    def post(case, g, out):
        if not out.ok:
            return {"no-exception": False}
        rest, tz = out.value
        return {"no-exception": True,
                "no-zone-invented": tz is None,
                "string-unchanged": rest == g["s"]}


class static_tzinfo:
    """StaticTzInfo: accessors return the constructor arguments; localize attaches without moving the
    wall clock and refuses aware input; pickle / copy / deepcopy round-trip (concrete offsets: every
    distinct offset of the table, exhaustive)."""

    name = "timezone_parser.StaticTzInfo"
    func = "dateparser.timezone_parser.StaticTzInfo"
    props = ["C11"]
    concrete_samples = 3

    @staticmethod
    def cases():
        return [dict(part="accessors"), dict(part="localize"), dict(part="roundtrip")]

    @staticmethod
    def setup(inp, case):
        import copy
        import datetime
        import pickle

        from dateparser.timezone_parser import StaticTzInfo, _tz_offsets

        if case["part"] == "roundtrip":
            offsets = sorted({i["offset"] for n, i in _tz_offsets})

            def f():
                bad = []
                for off in offsets:
                    z = StaticTzInfo("X%s" % off, off)
                    d = datetime.datetime(2014, 10, 20, 13, 8, 5, tzinfo=z)
                    for how, clone in (("pickle", pickle.loads(pickle.dumps(d))),
                                       ("copy", copy.copy(d)), ("deepcopy", copy.deepcopy(d)),
                                       ("pickle-tz", datetime.datetime(2014, 10, 20, 13, 8, 5,
                                        tzinfo=pickle.loads(pickle.dumps(z))))):
                        if (clone.utcoffset() != off or clone.replace(tzinfo=None)
                                != d.replace(tzinfo=None) or clone.tzname() != z.tzname(None)
                                or clone != d):
                            bad.append((how, str(off), str(clone.utcoffset())))
                return len(offsets), bad

            return f, (), {}, {}
        secs = inp.int("offset_s", -86399, 86399)
        from pyvc import cal

        off = cal.mk_timedelta(secs * 1000000) if inp.symbolic else datetime.timedelta(seconds=secs)
        z = StaticTzInfo("NAME", off)
        d = inp.datetime("d")
        if case["part"] == "accessors":
            def f():
                return (z.utcoffset(d), z.tzname(d), z.dst(d), z.__getinitargs__(), repr(z))
        else:
            def f():
                r = z.localize(d)
                try:
                    z.localize(r)
                    second = "no error"
                except ValueError:
                    second = "ValueError"
                return r, second
        return f, (), {}, dict(z=z, d=d, off=off, secs=secs)

    @staticmethod
    def post(case, g, out):
        import datetime

        from pyvc.cal import _td_us, dt_wall_us

        if not out.ok:
            return {"no-exception": False}
        if case["part"] == "roundtrip":
            n, bad = out.value
            return {"no-exception": True, "all-table-offsets-covered": n >= 40,
                    "pickle-copy-deepcopy-preserve-offset-wallclock-name-equality": bad == []}
        us = g["secs"] * 1000000
        if case["part"] == "accessors":
            uo, nm, dst, init, rp = out.value
            return {
                "no-exception": True,
                "utcoffset==constructor-offset": _td_us(uo) == us,
                "tzname==constructor-name": nm == "NAME",
                "dst==0": dst == datetime.timedelta(0),
                "getinitargs==(name,offset)": init[0] == "NAME" and _td_us(init[1]) == us,
                "repr-names-the-zone": rp == "<StaticTzInfo 'NAME'>",
            }
        r, second = out.value
        return {
            "no-exception": True,
            "localize-keeps-the-wall-clock": dt_wall_us(r) == dt_wall_us(g["d"]),
            "localize-attaches-this-zone": r.tzinfo is g["z"],
            "localize-refuses-aware-input": second == "ValueError",
        }


class pop_tz_no_zone_invented_numeric(pop_tz_no_zone_invented):
    name = "timezone_parser.pop_tz_offset_from_string/no-zone-invented-numeric"
    props = ["C07"]

    @classmethod
    def cases(cls, thorough=False):
        return [c for c in pop_tz_no_zone_invented.cases(thorough) if c["family"] == "numeric"]


class pop_tz_no_zone_invented_standard(pop_tz_no_zone_invented):
    name = "timezone_parser.pop_tz_offset_from_string/no-zone-invented-standard"
    props = ["C01", "C11"]

    @classmethod
    def cases(cls, thorough=False):
        return [c for c in pop_tz_no_zone_invented.cases(thorough) if c["family"] != "numeric"]


CONTRACTS = [pop_tz_written_offset, pop_tz_no_zone_invented_numeric,
             pop_tz_no_zone_invented_standard, static_tzinfo]
