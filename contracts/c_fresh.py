"""Contracts: dateparser/freshness_date_parser.py (C04; the canon side of C06).

Function under contract: date._DateLocaleParser._try_freshness_parser -> FreshnessDateDataParser.
get_date_data / parse / _parse_date / get_kwargs / _parse_time (executed in place) on the canonical
English strings the front end produces (`[in ]N unit( N unit)*[ ago][ HH:MM]`), every count, the
reference datetime and the clock symbolic.

ASSUME: pop_tz_offset_from_string(canon relative string) == (string, None)  [stand-in: relative_front]
ASSUME: dateutil.relativedelta behaves as pyvc.instrument.SRelDelta          [tools/selftest.py]
"""
from pyvc.spec import And, Implies, Ite, Not, Or, dim

UNITS = ["decade", "year", "month", "week", "day", "hour", "minute", "second"]
FROM = ("current_period", "past", "future")
US = 1000000
DAY = 86400 * US
MAXORD = 3652059


def _spec_shift(b, sign, amounts):
    """C04's own arithmetic: month steps on 12*y+m-1 with day clamp, then days and clock time.
    Returns (in_range, wall_us) with wall_us the ordinal-based wall clock of the result."""
    from pyvc.cal import ordinal

    Y = amounts.get("year", 0) + 10 * amounts.get("decade", 0)
    Mo = amounts.get("month", 0)
    if isinstance(Y, int) and isinstance(Mo, int) and Y == 0 and Mo == 0:
        ny, nm, nd, ok1 = b.year, b.month, b.day, True  # no month/year step: the date is kept
    else:
        lin = 12 * b.year + (b.month - 1) + sign * (12 * Y + Mo)
        ny = lin // 12
        nm = lin % 12 + 1
        ok1 = And(ny >= 1, ny <= 9999)
        L = dim(ny, nm)
        nd = Ite(b.day <= L, b.day, L)
    days = sign * (amounts.get("week", 0) * 7 + amounts.get("day", 0))
    tsec = sign * (amounts.get("hour", 0) * 3600 + amounts.get("minute", 0) * 60
                   + amounts.get("second", 0))
    tod = ((b.hour * 60 + b.minute) * 60 + b.second) * US + b.microsecond + tsec * US
    # (o, rem): day ordinal and microseconds into that day; for sub-day units `rem` may run over or
    # under one day (the wall clock o*DAY+rem is what is compared), for whole-day units it cannot
    o, rem = ordinal_total(ny, nm, nd) + days, tod
    wall = o * DAY + rem
    ok2 = And(wall >= DAY, wall < (MAXORD + 1) * DAY)
    return And(ok1, ok2), (o, rem), (ny, nm, nd)


def ordinal_total(y, m, d):
    """day ordinal for possibly out-of-range years (total function used only under `in_range`)"""
    from pyvc.core import SInt, mk_int
    from pyvc.cal import z_ordinal

    if all(isinstance(v, int) for v in (y, m, d)):
        y1 = y - 1
        dbm = [0, 0, 31, 59, 90, 120, 151, 181, 212, 243, 273, 304, 334][m]
        leap = y % 4 == 0 and (y % 100 != 0 or y % 400 == 0)
        return y1 * 365 + y1 // 4 - y1 // 100 + y1 // 400 + dbm + (1 if (m > 2 and leap) else 0) + d
    return mk_int(z_ordinal(y, m, d))


def _period(units, has_time, rtp):
    if rtp and has_time:
        return "time"
    if "day" in units:
        return "day"
    for k in ("week", "month", "year"):
        if k in units or (k == "year" and "decade" in units):
            return k
    return "day"


COMBOS = [
    ["year", "month"], ["month", "day"], ["week", "day"], ["day", "hour"], ["hour", "minute"],
    ["minute", "second"], ["decade", "year"], ["year", "decade"], ["month", "week"],
    ["year", "month", "day"], ["day", "hour", "minute"], ["week", "hour", "second"],
    ["decade", "month", "week"],
]


class relative_expression:
    name = "date._try_freshness_parser/relative-expression"
    func = "dateparser.date._DateLocaleParser._try_freshness_parser"
    props = ["C04", "C06"]

    @classmethod
    def cases(cls, thorough=False):
        out = []
        lens = (1, 2, 3, 4) if thorough else (1, 4)
        for u in UNITS:
            for direction in ("ago", "in", "bare"):
                for pf in (FROM if direction == "bare" else ("current_period",)):
                    for n in lens:
                        out.append(dict(units=[u], digits=[n], dir=direction, PREFER_DATES_FROM=pf))
        for combo in COMBOS:
            for direction in ("ago", "in"):
                out.append(dict(units=combo, digits=[2] * len(combo), dir=direction,
                                PREFER_DATES_FROM="current_period"))
        # explicit clock time replaces the time of day; period 'time' iff requested
        # (whole-day units only: with a sub-day unit the day of the result depends on a carry that
        # the solver does not decide in time; that combination is left to the sampled stand-in)
        for u in ("day", "week", "month"):
            for rtp in (False, True):
                for direction in ("ago", "in"):
                    out.append(dict(units=[u], digits=[2], dir=direction, clock=True,
                                    RETURN_TIME_AS_PERIOD=rtp, PREFER_DATES_FROM="current_period"))
        # the same with seconds written (HH:MM:SS)
        for u in (("day", "week", "month") if thorough else ("day",)):
            for rtp in (False, True):
                for direction in ("ago", "in"):
                    out.append(dict(units=[u], digits=[2], dir=direction, clock="hms",
                                    RETURN_TIME_AS_PERIOD=rtp, PREFER_DATES_FROM="current_period"))
        # in + ago together: "in" wins (the code's rule; the statement does not cover it) - skipped
        return out

    @staticmethod
    def template(case):
        tpl = []
        if case["dir"] == "in":
            tpl.append("in ")
        for i, (u, n) in enumerate(zip(case["units"], case["digits"])):
            if i:
                tpl.append(" ")
            tpl += [("n%d" % i, n), " ", u]
        if case["dir"] == "ago":
            tpl.append(" ago")
        if case.get("clock"):
            tpl += [" ", ("H", 2), ":", ("T", 2)]
        if case.get("clock") == "hms":
            tpl += [":", ("S", 2)]
        return tpl

    @staticmethod
    def setup(inp, case):
        import dateparser.freshness_date_parser as F
        from dateparser.date import _DateLocaleParser
        from pyvc.harness import build, make_settings

        b = inp.datetime("b")
        st = make_settings(RELATIVE_BASE=b, TIMEZONE="UTC",
                           PREFER_DATES_FROM=case["PREFER_DATES_FROM"],
                           RETURN_TIME_AS_PERIOD=case.get("RETURN_TIME_AS_PERIOD", False))
        s, f = build(inp, relative_expression.template(case))
        if case.get("clock"):
            inp.assume(And(f["H"] <= 23, f["T"] <= 59))
        if case.get("clock") == "hms":
            inp.assume(f["S"] <= 59)
        F.pop_tz_offset_from_string = lambda string, as_offset=True: (string, None)
        obj = _DateLocaleParser(None, s, None, settings=st)
        obj._translated_date = s
        return obj._try_freshness_parser, (), {}, dict(b=b, f=f)

    @staticmethod
    def post(case, g, out):
        from pyvc.cal import dt_wall_us

        b, f = g["b"], g["f"]
        amounts = {}
        for i, u in enumerate(case["units"]):
            amounts[u] = amounts.get(u, 0) + f["n%d" % i]  # (a repeated unit would overwrite: none here)
        d = case["dir"]
        sign = 1 if (d == "in" or (d == "bare" and case["PREFER_DATES_FROM"] == "future")) else -1
        in_range, (o, rem), (ny, nm, nd) = _spec_shift(b, sign, amounts)
        wall = o * DAY + rem
        if not out.ok:
            return {"no-exception-escapes": False}
        dd = out.value
        res = {"no-exception-escapes": True}
        if dd is None or dd.date_obj is None:
            res["None-only-when-the-result-leaves-the-range"] = Not(in_range)
            return res
        r = dd.date_obj
        res["None-only-when-the-result-leaves-the-range"] = True
        if case.get("clock"):
            H, T = f["H"], f["T"]
            # the clock time replaces the time of day of the shifted base
            exp = o * DAY + ((H * 60 + T) * 60 + f.get("S", 0)) * US
            res["in-range=>calendar-arithmetic-with-clock-replaced"] = Implies(
                in_range, dt_wall_us(r) == exp)
        else:
            res["in-range=>exact-calendar-arithmetic"] = Implies(in_range, dt_wall_us(r) == wall)
        res["naive-result"] = r.tzinfo is None
        res["period"] = dd.period == _period(case["units"], bool(case.get("clock")),
                                             case.get("RETURN_TIME_AS_PERIOD", False))
        return res


class get_kwargs:
    """decades fold into years (x10) whatever the order; each unit keeps its own count."""

    name = "freshness.get_kwargs"
    func = "dateparser.freshness_date_parser.FreshnessDateDataParser.get_kwargs"
    props = ["C04"]

    @staticmethod
    def cases():
        return [dict(units=c) for c in COMBOS] + [dict(units=[u]) for u in UNITS]

    @staticmethod
    def setup(inp, case):
        from dateparser.freshness_date_parser import freshness_date_parser
        from pyvc.harness import build

        tpl = []
        for i, u in enumerate(case["units"]):
            if i:
                tpl.append(" ")
            tpl += [("n%d" % i, 2), " ", u]
        tpl.append(" ago")
        s, f = build(inp, tpl)
        return freshness_date_parser.get_kwargs, (s,), {}, dict(f=f)

    @staticmethod
    def post(case, g, out):
        if not out.ok:
            return {"no-exception": False}
        f = g["f"]
        want = {}
        for i, u in enumerate(case["units"]):
            want[u + "s"] = f["n%d" % i]
        if "decades" in want:
            want["years"] = 10 * want.pop("decades") + want.get("years", 0)
        kw = out.value
        return {
            "no-exception": True,
            "keys": sorted(kw) == sorted(want),
            "values": And(*[kw[k] == want[k] for k in want if k in kw]),
        }


CONTRACTS = [relative_expression, get_kwargs]
