#!/bin/sh
# run every seeded change against its property's quick check and record the outcome in meta.json
HERE=$(cd "$(dirname "$0")/.." && pwd); cd "$HERE"
for d in seeded/${1:-*}/; do
  n=$(basename $d); id=${n%-*}
  p=$d/patch.diff
  for alt in $d/patch_rebased_*.diff; do [ -f "$alt" ] && p=$alt; done
  out=$(tools/try_seed.sh "$HERE/$p" $id 2>&1); rc=$?
  v=$(echo "$out" | grep "^violations:" | head -1 | sed 's/violations: //')
  first=$(echo "$out" | grep "^VIOLATION" | head -1 | sed 's/.*obligation=//' | cut -c1-200)
  python3 - "$d/meta.json" "$rc" "${v:-0}" "$first" "$(basename $p)" <<'PY'
import json,sys
path,rc,v,first,patch=sys.argv[1:]
m=json.load(open(path))
m["check_run"]={"cmd":"tools/try_seed.sh <patch> <property> (quick tier, scratch copy of /repo)","patch_used":patch,
 "exit_code":int(rc),"violation_lines":int(v),"first_failed_obligation":first,
 "detected": int(rc)==1}
json.dump(m,open(path,"w"),indent=1)
PY
  echo "$n rc=$rc violations=${v:-0} $first"
done
