#!/bin/sh
# serial_suite_seed.sh <seed dir name> [base commit]: run the repository's whole test suite serially (the
# baseline command) on a scratch worktree with the seeded change applied; record in meta.json whether
# every failure is one of the tests that also fail serially on the unchanged tree.
S=$1; BASE=${2:-d1360eb}
WT=/tmp/sseed_$S
STABLE='test_custom_language_detect_fast_text_[01]|test_search_dates_with_prepositions|dateparser/date.py::dateparser.date.DateDataParser.get_date_data|dateparser/search/__init__.py::dateparser.search.search_dates|write_complete_data'
git -C /repo worktree remove --force $WT 2>/dev/null
git -C /repo worktree add -q --detach $WT $BASE || exit 3
cd $WT && git apply /verif/seeded/$S/patch.diff || { echo "$S APPLY FAILED"; cd /; git -C /repo worktree remove --force $WT; exit 3; }
/venv/bin/python -m pytest -ra -q -p no:cacheprovider --timeout=900 --continue-on-collection-errors > /tmp/sseed_$S.log 2>&1
summary=$(tail -1 /tmp/sseed_$S.log)
bad=$(grep -E "^(FAILED|ERROR)" /tmp/sseed_$S.log | grep -v -E "$STABLE" | wc -l)
cd /; git -C /repo worktree remove --force $WT
python3 - "$S" "$bad" "$summary" "$BASE" <<'PY'
import json,sys
S,bad,summary,base=sys.argv[1:]
p="/verif/seeded/%s/meta.json"%S
m=json.load(open(p))
m["serial_full_suite_with_change"]={"base_commit":base,"summary":summary,"failures_outside_unchanged_tree_set":int(bad)}
m["confirmed"]= m.get("demo_rc_clean_tree")==0 and m.get("demo_rc_with_change")!=0 and int(bad)==0
json.dump(m,open(p,"w"),indent=1)
PY
echo "$S bad=$bad $summary"
