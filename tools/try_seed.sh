#!/bin/sh
# try_seed.sh <patch.diff> <property id> [extra check args]: apply a seeded change to /repo, run the check, undo.
P=$1; ID=$2; shift 2
git -C /repo apply "$P" || exit 9
cd /verif && VERIF_EVIDENCE_DIR=/tmp/evid_seed VERIF_REPLAY_DIR=/tmp/replays_seed ./check $ID "$@" > /tmp/try_seed.out 2>&1; rc=$?
git -C /repo checkout -- .
grep -c "^VIOLATION" /tmp/try_seed.out | sed 's/^/violations: /'
grep -E "^(VIOLATION|UNDECIDED|CHECKER|BASELINE)" /tmp/try_seed.out | cut -c1-250 | head -6
tail -1 /tmp/try_seed.out | cut -c1-300
echo "rc=$rc"
