#!/bin/sh
# try_seed.sh <patch.diff> <property id> [extra check args]
# Run a property's check against a scratch COPY of /repo with a seeded change applied (VERIF_REPO),
# so /repo itself is never touched; the copy and the run's evidence/replays are thrown away.
HERE=$(cd "$(dirname "$0")/.." && pwd)
P=$1; ID=$2; shift 2
W=$(mktemp -d /tmp/seedrepo.XXXXXX)
rsync -a --exclude .git --exclude __pycache__ /repo/ $W/
(cd $W && git apply "$P") || { echo "APPLY FAILED"; rm -rf $W; exit 9; }
cd "$HERE" && VERIF_REPO=$W VERIF_EVIDENCE_DIR=$W/_evid VERIF_REPLAY_DIR=$W/_replays ./check $ID "$@" > /tmp/try_seed_$$.out 2>&1; rc=$?
grep -c "^VIOLATION" /tmp/try_seed_$$.out | sed 's/^/violations: /'
grep -E "^(VIOLATION|UNDECIDED|CHECKER|BASELINE)" /tmp/try_seed_$$.out | cut -c1-250 | head -4
tail -1 /tmp/try_seed_$$.out | cut -c1-300
echo "rc=$rc"
cp /tmp/try_seed_$$.out /tmp/try_seed_last.out; rm -f /tmp/try_seed_$$.out
rm -rf $W
exit $rc
