#!/bin/sh
# run every claimed check (quick by default) sequentially; print id, exit code, wall time
TIER=${1:-quick}
cd /verif
for id in $(.venv/bin/python -c "import json;print(' '.join(c['property_id'] for c in json.load(open('MANIFEST.json'))['checks']))"); do
  s=$(date +%s)
  ./check $id --tier $TIER > /tmp/runall_$id.log 2>&1; rc=$?
  e=$(date +%s)
  echo "$id rc=$rc $((e-s))s $(tail -1 /tmp/runall_$id.log | cut -c1-160)"
done
