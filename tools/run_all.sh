#!/bin/sh
# run every claimed check (quick by default) sequentially; print id, exit code, wall time.
# Works from whatever checkout it lives in (so `vp run` snapshots work).  With VERIF_BASELINE_COPY=<path>
# the checkout's baseline file is copied there after every check (to carry per-tier baselines out of
# a snapshot run); merge with tools/merge_baseline.py.
TIER=${1:-quick}
HERE=$(cd "$(dirname "$0")/.." && pwd); cd "$HERE"
sh tools/setup_venv.sh >/dev/null 2>&1
for id in ${VERIF_IDS:-$(.venv/bin/python -c "import json;print(' '.join(c['property_id'] for c in json.load(open('MANIFEST.json'))['checks']))")}; do
  s=$(date +%s)
  ./check $id --tier $TIER > /tmp/runall_${TIER}_$id.log 2>&1; rc=$?
  e=$(date +%s)
  echo "$id rc=$rc $((e-s))s $(tail -1 /tmp/runall_${TIER}_$id.log | cut -c1-160)"
  [ -n "$VERIF_BASELINE_COPY" ] && cp baseline/obligations.json "$VERIF_BASELINE_COPY"
done
