#!/bin/sh
# store_seed.sh <property id> <n> <srcdir> <out n> [base commit]: confirm a sub-agent's change independently
# in a scratch worktree (demo passes on the clean tree and fails with the change; the repository's whole
# suite, run serially with the baseline command, fails nothing beyond what fails on the unchanged tree),
# store it under /verif/seeded/<id>-<out n>/ and remove the worktree.
ID=$1; N=$2; SRC=$3; ON=$4; BASE=${5:-d1360eb}
S=$ID-$ON
WT=/tmp/sseed_$S
OUT=/verif/seeded/$S
STABLE='test_custom_language_detect_fast_text_[01]|test_search_dates_with_prepositions|dateparser/date.py::dateparser.date.DateDataParser.get_date_data|dateparser/search/__init__.py::dateparser.search.search_dates|write_complete_data'
git -C /repo worktree remove --force $WT 2>/dev/null
git -C /repo worktree add -q --detach $WT $BASE || exit 3
mkdir -p $WT/_seed $OUT && cp $SRC/demo$N.py $WT/_seed/
cd $WT
/venv/bin/python _seed/demo$N.py > /tmp/sseed_$S.clean 2>&1; crc=$?
git apply $SRC/change$N.diff || { echo "$S APPLY FAILED"; cd /; git -C /repo worktree remove --force $WT; exit 3; }
/venv/bin/python _seed/demo$N.py > /tmp/sseed_$S.mut 2>&1; mrc=$?
rm -rf _seed
/venv/bin/python -m pytest -ra -q -p no:cacheprovider --timeout=900 --continue-on-collection-errors > /tmp/sseed_$S.log 2>&1
summary=$(tail -1 /tmp/sseed_$S.log)
bad=$(grep -E "^(FAILED|ERROR)" /tmp/sseed_$S.log | grep -v -E "$STABLE" | wc -l)
cd /; git -C /repo worktree remove --force $WT
cp $SRC/change$N.diff $OUT/patch.diff; cp $SRC/demo$N.py $OUT/demo.py; cp $SRC/notes.md $OUT/notes.md 2>/dev/null
tail -8 /tmp/sseed_$S.mut > $OUT/demo_output_with_change.txt
python3 - "$ID" "$N" "$crc" "$mrc" "$bad" "$summary" "$BASE" "$OUT" <<'PY'
import json,sys
ID,N,crc,mrc,bad,summary,base,out=sys.argv[1:]
json.dump({"property":ID,"seed":int(N),"breaks":ID,
 "needs_to_manifest":"see notes.md (written by the independent sub-agent that produced the change; change %s there)"%N,
 "demo_rc_clean_tree":int(crc),"demo_rc_with_change":int(mrc),
 "serial_full_suite_with_change":{"base_commit":base,"summary":summary,"failures_outside_unchanged_tree_set":int(bad)},
 "confirmed": int(crc)==0 and int(mrc)!=0 and int(bad)==0,
 "what_i_ran":"scratch worktree of /repo at the base commit: demo on the clean tree; git apply patch.diff; demo again; the whole suite serially with the baseline command, failures compared with those of the unchanged tree (2 doctests, fast_text_0/1, test_search_dates_with_prepositions, write_complete_data collection error); worktree removed"},
 open(out+"/meta.json","w"),indent=1)
PY
echo "$S clean_rc=$crc mut_rc=$mrc bad=$bad $summary"
