#!/bin/sh
# verify_seed2.sh <property id> <n> <srcdir>: confirm a seeded change independently in a scratch worktree:
#  demo passes on the clean tree, fails with the change; the existing test suite (xdist run, then every
#  failing test re-run serially) fails only the three tests that also fail serially on the unchanged tree.
# Stores patch, demo and meta.json under /verif/seeded/<id>-<n>/ and removes the scratch worktree.
set -u
ID=$1; N=$2; SRC=$3
WT=/tmp/vseed_${ID}_${N}
OUT=/verif/seeded/${ID}-${VSEED_OUTN:-$N}
STABLE='test_custom_language_detect_fast_text_[01]|test_search_dates_with_prepositions'
git -C /repo worktree remove --force $WT 2>/dev/null
git -C /repo worktree add -q --detach $WT ${VSEED_BASE:-c8c8cb2} || exit 3
mkdir -p $WT/_seed && cp $SRC/demo$N.py $WT/_seed/
cd $WT
/venv/bin/python _seed/demo$N.py > /tmp/vseed_${ID}_${N}.clean 2>&1; clean_rc=$?
git apply $SRC/change$N.diff || { echo "$ID-$N APPLY FAILED"; cd /; git -C /repo worktree remove --force $WT; exit 3; }
/venv/bin/python _seed/demo$N.py > /tmp/vseed_${ID}_${N}.mut 2>&1; mut_rc=$?
/venv/bin/python -m pytest -q -p no:cacheprovider -n ${VSEED_JOBS:-8} --timeout=900 tests 2>&1 | grep -E "^(FAILED|ERROR)" | sed 's/ - .*//; s/^[A-Z]* //' | sort > /tmp/vseed_${ID}_${N}.fails
nf=$(wc -l < /tmp/vseed_${ID}_${N}.fails)
serial_bad=0
if [ "$nf" -gt 0 ]; then
  /venv/bin/python -m pytest -q -p no:cacheprovider -p no:xdist --timeout=900 $(cat /tmp/vseed_${ID}_${N}.fails | tr '\n' ' ') 2>&1 | grep -E "^(FAILED|ERROR)" | sed 's/ - .*//' | sort > /tmp/vseed_${ID}_${N}.serialfails
  serial_bad=$(grep -v -E "$STABLE" /tmp/vseed_${ID}_${N}.serialfails | wc -l)
fi
cd /; git -C /repo worktree remove --force $WT
mkdir -p $OUT
cp $SRC/change$N.diff $OUT/patch.diff; cp $SRC/demo$N.py $OUT/demo.py
tail -8 /tmp/vseed_${ID}_${N}.mut > $OUT/demo_output_with_change.txt
python3 - "$ID" "$N" "$clean_rc" "$mut_rc" "$nf" "$serial_bad" "$OUT" "$SRC" <<'PY'
import json,sys,re
ID,N,crc,mrc,nf,bad,out,src=sys.argv[1:]
notes=""
try:
    notes=open(src+"/notes.md").read()
except Exception: pass
json.dump({"property":ID,"seed":int(N),
 "breaks":ID,
 "needs_to_manifest":"see notes.md (written by the independent sub-agent that produced the change)",
 "demo_rc_clean_tree":int(crc),"demo_rc_with_change":int(mrc),
 "xdist_failures_with_change":int(nf),"serial_failures_outside_unchanged_tree_set":int(bad),
 "confirmed": int(crc)==0 and int(mrc)!=0 and int(bad)==0,
 "what_i_ran":"scratch worktree of /repo at the pinned commit: demo on the clean tree; git apply patch.diff; demo again; pytest -n 8 tests, then every failing test re-run serially and compared with the three tests that fail serially on the unchanged tree (fast_text_0/1, test_search_dates_with_prepositions); worktree removed"},
 open(out+"/meta.json","w"),indent=1)
open(out+"/notes.md","w").write(notes)
PY
echo "$ID-$N clean_rc=$clean_rc mut_rc=$mut_rc xdist_fails=$nf serial_unexpected=$serial_bad"
