#!/bin/sh
# Build the overlay venv used by every check (offline; wheels from /opt/veriftools/wheels).
# The venv lives next to the checkout this script belongs to (./.venv), so a snapshot of /verif
# (vp run) builds its own.
set -e
HERE=$(cd "$(dirname "$0")/.." && pwd)
V=$HERE/.venv
if [ -x "$V/bin/python" ] && "$V/bin/python" -c "import z3, cvc5, jsonschema, regex, pytz" 2>/dev/null; then
  exit 0
fi
rm -rf "$V"
/venv/bin/python -m venv "$V"
PIP_NO_INDEX=1 "$V/bin/pip" install -q --no-index --find-links /opt/veriftools/wheels z3-solver cvc5 jsonschema >/dev/null
SP=$("$V/bin/python" -c "import sysconfig;print(sysconfig.get_paths()['purelib'])")
echo "import site; site.addsitedir('/venv/lib/python3.12/site-packages')" > "$SP/_repo_deps.pth"
"$V/bin/python" -c "import z3, cvc5, jsonschema, regex, pytz, dateparser; print('venv ok', z3.get_version_string())"
