"""merge_baseline.py <copy.json> <tier>: take the `<pid>/<tier>` entries of a baseline file written by a
snapshot run into this checkout's baseline/obligations.json (other entries untouched)."""
import json
import os
import sys

here = os.path.dirname(os.path.dirname(os.path.abspath(__file__)))
dst = os.path.join(here, "baseline", "obligations.json")
src, tier = sys.argv[1], sys.argv[2]
a = json.load(open(dst))
b = json.load(open(src))
n = 0
for k, v in b.items():
    if k.endswith("/" + tier):
        a[k] = v
        n += 1
json.dump(a, open(dst, "w"), indent=0, sort_keys=True)
print("merged", n, "entries")
