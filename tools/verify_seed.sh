#!/bin/sh
# verify_seed.sh <property id> <n> <srcdir>: confirm a seeded change independently in a scratch worktree
# (demo fails with the change, passes without; existing test suite keeps its failing set), then store it
# under /verif/seeded/<id>-<n>/.  The scratch worktree is removed afterwards.
set -u
ID=$1; N=$2; SRC=$3
WT=/tmp/vseed_${ID}_${N}
OUT=/verif/seeded/${ID}-${N}
ALLOWED='test_timestamp_with_different_timestr_08[12]|test_loading_[0-9]+|test_custom_language_detect_fast_text_[01]|test_search_dates_with_prepositions'
git -C /repo worktree remove --force $WT 2>/dev/null
git -C /repo worktree add -q --detach $WT HEAD || exit 3
mkdir -p $WT/_seed && cp $SRC/demo$N.py $WT/_seed/ 
cd $WT
clean_out=$(/venv/bin/python _seed/demo$N.py 2>&1); clean_rc=$?
git apply $SRC/change$N.diff || { echo "APPLY FAILED"; git -C /repo worktree remove --force $WT; exit 3; }
mut_out=$(/venv/bin/python _seed/demo$N.py 2>&1); mut_rc=$?
/venv/bin/python -m pytest -q -p no:cacheprovider -n 12 --timeout=900 tests -x --deselect tests/test_clean_api.py 2>/dev/null >/dev/null
/venv/bin/python -m pytest -q -p no:cacheprovider -n 12 --timeout=900 tests 2>&1 | grep -E "^(FAILED|ERROR)" | sed 's/ - .*//' | sort > /tmp/vseed_${ID}_${N}.fails
unexpected=$(grep -v -E "$ALLOWED" /tmp/vseed_${ID}_${N}.fails | wc -l)
nf=$(wc -l < /tmp/vseed_${ID}_${N}.fails)
cd /; git -C /repo worktree remove --force $WT
mkdir -p $OUT
cp $SRC/change$N.diff $OUT/patch.diff; cp $SRC/demo$N.py $OUT/demo.py
cp $SRC/notes.md $OUT/notes.md 2>/dev/null
python3 - "$ID" "$N" "$clean_rc" "$mut_rc" "$nf" "$unexpected" "$OUT" <<PY
import json,sys
ID,N,crc,mrc,nf,unexp,out=sys.argv[1:]
mut_out=open('/dev/stdin').read() if False else ''
json.dump({"property":ID,"seed":int(N),"demo_rc_clean":int(crc),"demo_rc_with_change":int(mrc),
 "tests_failing_with_change":int(nf),"tests_failing_outside_known_flaky_set":int(unexp),
 "confirmed": int(crc)==0 and int(mrc)!=0 and int(unexp)==0,
 "what_i_ran":"scratch worktree of /repo HEAD: demo on clean tree, git apply patch, demo again, full pytest -n 12 tests; failing set compared with the xdist-flaky set of the unchanged tree"},
 open(out+"/meta.json","w"),indent=1)
PY
echo "$mut_out" | tail -5 > $OUT/demo_output_with_change.txt
echo "$ID-$N clean_rc=$clean_rc mut_rc=$mut_rc fails=$nf unexpected=$unexpected"
