"""C14 stand-in (exhaustive over the vocabulary): with date_formats=['%d %B %Y'] / ['%B %d, %Y'] and a
language selected, the string the format produces with that language's month name (every
single-meaning month name of every language and locale) parses back to exactly that date."""
import datetime

from standins.common import args, emit, pmap
from standins.vocab import MONTHS, all_codes, info_of, single_meaning_names

FORMATS = [("%d %B %Y", "{d:02d} {name} {y}"), ("%B %d, %Y", "{name} {d:02d}, {y}"),
           ("%d %b %Y %H:%M", "{d:02d} {name} {y} 07:41")]

# literal separators between the directives (the format keeps them, so the translated string must):
# checked for the first names of every locale
SEP_FORMATS = [("%y %B %d | %H:%M", "15 {name} {d:02d} | 07:41"), ("%d %B %Y|%H:%M", "{d:02d} {name} {y}|07:41"),
               ("%d %B %Y @ %H:%M", "{d:02d} {name} {y} @ 07:41"), ("%Y; %B; %d", "{y}; {name}; {d:02d}")]


def work(job):
    import dateparser

    code, kind, tier = job
    info = info_of(code)
    kw = {"languages": [code]} if kind == "language" else {"locales": [code]}
    bad = []
    n = 0
    names = single_meaning_names(info, MONTHS)
    for key, name in names:
        mi = MONTHS.index(key) + 1
        for fmt, tpl in (FORMATS if tier != "quick" else FORMATS[:2]):
            s = tpl.format(d=17, name=name, y=2015)
            n += 1
            try:
                r = dateparser.parse(s, date_formats=[fmt], **kw)
            except Exception as e:
                r = "raised %s" % type(e).__name__
            want = datetime.datetime(2015, mi, 17, 7 if "%H" in fmt else 0, 41 if "%H" in fmt else 0)
            # the statement's own precedence rule: "if the raw string matches one of the given
            # formats, that reading is returned" - a localized name that is also an English name of
            # another month under this format (teo 'mar' = May) must give the raw reading
            try:
                want = datetime.datetime.strptime(s, fmt)
            except ValueError:
                pass
            if r != want:
                bad.append((code, name, fmt, s, repr(r), repr(want)))
                break
    failed = set(b[1] for b in bad)  # names that already fail with the plain formats: reported once
    for key, name in names[:2] if tier == "quick" else names[:6]:
        if name in failed:
            continue
        mi = MONTHS.index(key) + 1
        for fmt, tpl in SEP_FORMATS:
            s = tpl.format(d=17, name=name, y=2015)
            n += 1
            try:
                r = dateparser.parse(s, date_formats=[fmt], **kw)
            except Exception as e:
                r = "raised %s" % type(e).__name__
            want = datetime.datetime(2015, mi, 17, 7 if "%H" in fmt else 0, 41 if "%H" in fmt else 0)
            try:
                want = datetime.datetime.strptime(s, fmt)
            except ValueError:
                pass
            if r != want:
                bad.append((code, name + " " + fmt, fmt, s, repr(r), repr(want)))
    return n, len(names), bad


def work_group(group):
    n = nn = 0
    bad = []
    for job in group:
        a_, b_, c_ = work(job)
        n += a_
        nn += b_
        bad += c_
    return n, nn, bad


def main():
    a = args()
    by_lang = {}
    for c, k in all_codes():
        by_lang.setdefault(c.split("-")[0], []).append((c, k, a.tier))
    groups = list(by_lang.values())
    res = pmap(work_group, groups, a.procs, chunk=1)
    failures = []
    total = names = 0
    for n, nn, bad in res:
        total += n
        names += nn
        for code, name, fmt, s, got, want in bad:
            failures.append({"id": "month:%s:%s" % (code, name),
                             "input": "parse(%r, date_formats=[%r], %s)" % (s, fmt, code),
                             "detail": "got %s, expected %s" % (got, want)})
    emit(total, names, "every single-meaning month name of 504 languages and locales x %d formats; "
         "distinct = (locale, name)" % len(FORMATS), failures, ["17 janvier 2015 / %d %B %Y (fr)"],
         exhaustive=True)


if __name__ == "__main__":
    main()
