"""C05 stand-in (exhaustive over the vocabulary): for every language and regional locale, every
single-meaning month name in 'D <name> YYYY' parses to exactly that date, and every single-meaning
weekday name alone parses to the most recent such weekday within the seven days ending at the
reference date (reference days 8..24), with NORMALIZE on and off."""
import datetime

from standins.common import args, emit, pmap
from standins.vocab import MONTHS, WEEKDAYS, all_codes, info_of, single_meaning_names

BASES = [datetime.datetime(2015, 6, 16, 10, 30), datetime.datetime(2024, 2, 24, 0, 0),
         datetime.datetime(2021, 10, 8, 23, 59)]


def work(job):
    from dateparser.date import DateDataParser

    code, kind, tier = job
    info = info_of(code)
    kw = {"languages": [code]} if kind == "language" else {"locales": [code]}
    bad = []
    n = 0
    names = single_meaning_names(info, MONTHS) + single_meaning_names(info, WEEKDAYS)
    for norm in (True, False):
        parsers = [DateDataParser(settings={"NORMALIZE": norm, "RELATIVE_BASE": b}, **kw)
                   for b in BASES]
        for key, name in names:
            if key in MONTHS:
                mi = MONTHS.index(key) + 1
                combos = [(3, 2015), (17, 1999)] if tier == "quick" else \
                    [(1, 2015), (3, 2015), (17, 1999), (28, 2024), (9, 1800)]
                for D, Y in combos:
                    s = "%d %s %d" % (D, name, Y)
                    n += 1
                    try:
                        r = parsers[0].get_date_data(s).date_obj
                    except Exception as e:
                        r = "raised %s" % type(e).__name__
                    want = datetime.datetime(Y, mi, D)
                    if r != want:
                        bad.append(("month", code, name, norm, s, repr(r), repr(want)))
                        break
            else:
                t = WEEKDAYS.index(key)
                for p, b in zip(parsers, BASES if tier != "quick" else BASES[:2]):
                    n += 1
                    try:
                        r = p.get_date_data(name).date_obj
                    except Exception as e:
                        r = "raised %s" % type(e).__name__
                    k = (b.weekday() - t) % 7
                    want = (b - datetime.timedelta(days=k)).replace(hour=0, minute=0, second=0,
                                                                     microsecond=0)
                    if r != want:
                        bad.append(("weekday", code, name, norm, name, repr(r), repr(want)))
                        break
    return n, len(names), bad


def work_group(group):
    """one language's codes in one process, in order: results must not depend on which sibling
    locale was loaded first (the loader shares per-language data between them)"""
    n = nn = 0
    bad = []
    for job in group:
        a_, b_, c_ = work(job)
        n += a_
        nn += b_
        bad += c_
    return n, nn, bad


def main():
    a = args()
    by_lang = {}
    for c, k in all_codes():
        by_lang.setdefault(c.split("-")[0], []).append((c, k, a.tier))
    groups = []
    for lang, jobs in by_lang.items():
        regional = [j for j in jobs if j[1] == "locale"]
        plain = [j for j in jobs if j[1] == "language"]
        groups.append(regional + plain)  # regional overlays loaded first, then the language
    res = pmap(work_group, groups, a.procs, chunk=1)
    jobs = [j for g in groups for j in g]
    failures = []
    total = names = 0
    for n, nn, bad in res:
        total += n
        names += nn
        for kind, code, name, norm, s, got, want in bad:
            failures.append({"id": "%s:%s:%s:normalize=%s" % (kind, code, name, norm),
                             "input": "DateDataParser(%s, NORMALIZE=%s).get_date_data(%r)" % (
                                 code, norm, s), "detail": "got %s, expected %s" % (got, want)})
    emit(total, names, "every single-meaning month/weekday name of %d languages and locales x "
         "NORMALIZE on/off; distinct = (locale, name)" % len(jobs), failures,
         ["3 janvier 2015 (fr)", "lunes (es)"], exhaustive=True)


if __name__ == "__main__":
    main()
