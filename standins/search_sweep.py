"""C17 stand-in (bounded): search_dates over a deterministic family of texts built from every
language's own vocabulary (months, weekdays, relative words and counted patterns, simplification
keys), filler prose and mutated punctuation / spacing, with the language given explicitly and with
autodetection, with and without RELATIVE_BASE:
  never raises; returns None or a non-empty list of (substring, datetime) pairs; every substring is
  non-blank and occurs in the text (up to white space), in text order; with add_detected_language the
  tuple carries one language, which is among the requested ones."""
import datetime
import re

from standins.common import args, emit, pmap

BASE = datetime.datetime(2020, 5, 15, 12, 30)


def instantiate(pattern):
    """a string matched by a vocabulary regex (relative-type-regex / simplification key), or None"""
    s = pattern
    for a, b in ((r"(\d+[.,]?\d*)", "3"), (r"(\d+)", "3"), (r"\d+", "3"), (r"\s+", " "),
                 (r"\s*", " "), (r"\s?", " "), (r"\s", " "), (r"\.", "."), ("(?:", "("),
                 ("^", ""), ("$", "")):
        s = s.replace(a, b)
    s = re.sub(r"\(([^()|]*)\|[^()]*\)", r"\1", s)
    s = re.sub(r"\(([^()]*)\)\?", r"\1", s)
    s = re.sub(r"(.)\?", r"\1", s)
    s = s.replace("(", "").replace(")", "")
    try:
        if re.fullmatch(pattern, s, re.I | re.U):
            return s
    except re.error:
        pass
    return None


def texts_for(lang):
    from dateparser.languages.loader import LocaleDataLoader

    info = LocaleDataLoader().get_locale(lang).info
    first = lambda k, d: (info.get(k) or [d])[0]
    m, m2 = first("march", "March"), first("november", "November")
    w, w2 = first("monday", "Monday"), first("friday", "Friday")
    rel = []
    for canon, words in (info.get("relative-type") or {}).items():
        if words:
            rel.append(words[0])
    rel = rel[:6] or ["yesterday"]
    counted = []
    for canon, pats in (info.get("relative-type-regex") or {}).items():
        for p in pats[:1]:
            t = instantiate(p)
            if t:
                counted.append(t)
    counted = counted[:6]
    simpl = []
    for d in (info.get("simplifications") or [])[:40]:
        for k in d:
            t = instantiate(k)
            if t and len(t) > 3:
                simpl.append(t)
    simpl = simpl[:6]
    # simplification keys of any length whose replacement has more tokens than the key (a word that
    # becomes '12:00'): the alignment of original and simplified tokens is what is exercised
    expanding = []
    for d in (info.get("simplifications") or []):
        for k, v in d.items():
            t = instantiate(k)
            if t and "\\" not in v and len(re.findall(r"\w+|[^\w\s]", v)) > len(t.split()):
                expanding.append(t)
    expanding = expanding[:8]
    out = [
        "%s 4 %s 2015" % (w, m), "4 %s 2015" % m, "%s" % m, "%s" % w, "4.3.2015 - 5.3.2015",
        "xx yy 4 %s 2015 zz, 17 %s 2019." % (m, m2), "(4 %s 2015)" % m, "4 %s 2015\n17 %s" % (m, m2),
        "4  %s   2015 ; %s" % (m, w2), "%s 10:30, %s 23:59" % (w, w2), "2015-03-04 10:30:00",
        "99999 %s 32 %s 2015 40" % (m, m2), "%s %s %s 2015" % (w, w2, w), "",
        " ", "....", "-", "—— 4 %s ——" % m, "4 %s 2015年3月4日" % m,
    ]
    # every punctuation mark the search tokenizer strips, directly attached to a dictionary word
    for q1, q2 in (('"', '"'), ("'", "'"), ("(", ")"), ("[", "]"), ("{", "}"), ("\u201c", "\u201d"),
                   ("", ","), ("", "."), ("", "\u060c"), ('"', '",')):
        out.append("xx %s%s%s yy 4 %s 2015" % (q1, rel[0], q2, m))
        out.append("%s%s%s 10 Uhr" % (q1, w, q2))
        out.append("%s4 %s%s" % (q1, m, q2))
    # capitalised / upper-cased words (the original substring must still be found in the text)
    for r in rel[:3]:
        out += ["xx %s yy" % r.title(), "xx %s yy" % r.upper(), "%s %s" % (r.capitalize(), w.upper())]
    for r in rel:
        out += [r, "xx %s yy" % r, "%s 25 %s 25 %s" % (r, m, m), "%s %s %s 2015" % (r, w, w2),
                "%s, 4 %s 2015 99999" % (r, m)]
    for c in counted:
        out += [c, "xx %s yy 4 %s" % (c, m)]
    for s in simpl:
        out += ["xx %s yy" % s, "%s 4 %s 2015" % (s, m), "posted %s by John" % s]
    # vocabulary words spelled with an apostrophe, written with the typographic look-alikes that
    # sanitize_date folds for parse(): whatever search reports must still be a piece of the text
    apo = []
    for k, v in info.items():
        ws = v if isinstance(v, list) else ([w for ws_ in v.values() for w in ws_] if isinstance(v, dict) and k == "relative-type" else [])
        for w_ in ws:
            if isinstance(w_, str) and "'" in w_ and w_ not in apo:
                apo.append(w_)
    for w_ in apo[:6]:
        for ch in ("\u2019", "\u02bc"):
            c = w_.replace("'", ch)
            out += ["xx %s yy 10:30" % c, "%s 4 %s 2015" % (c, m), c.title()]
    for s in expanding:
        out += [s, '"%s"' % s, 'xx "%s" yy' % s, "(%s)" % s, "4 %s 2015 %s." % (m, s)]
    return out


def check(text, res, langs, with_lang):
    if res is None:
        return None
    if not isinstance(res, list) or not res:
        return "neither None nor a non-empty list: %r" % (res,)
    squeeze = lambda s: re.sub(r"\s+", "", s)
    hay = squeeze(text)
    pos = 0
    for item in res:
        if len(item) != (3 if with_lang else 2):
            return "tuple of length %d" % len(item)
        sub, dt = item[0], item[1]
        if not isinstance(sub, str) or not sub.strip():
            return "blank substring %r" % (sub,)
        if not isinstance(dt, datetime.datetime):
            return "not a datetime: %r" % (dt,)
        i = hay.find(squeeze(sub), pos)
        if i < 0:
            return "substring %r not in the text at/after the previous hit" % (sub,)
        pos = i
        if with_lang and langs and item[2] not in langs:
            return "language %r not among the requested %r" % (item[2], langs)
    return None


def work(job):
    from dateparser.search import search_dates

    lang, text, mode = job
    kw = {}
    if mode in ("lang", "lang+base"):
        kw["languages"] = [lang]
    if mode in ("lang+base", "auto+base"):
        kw["settings"] = {"RELATIVE_BASE": BASE}
    try:
        r = search_dates(text, add_detected_language=True, **kw)
    except Exception as e:
        return (job, "raised %s: %s" % (type(e).__name__, str(e)[:80]))
    bad = check(text, r, kw.get("languages"), True)
    if bad:
        return (job, bad)
    return None


def main():
    a = args()
    from dateparser.data import language_order

    langs = list(language_order)
    jobs = []
    for li, lang in enumerate(langs):
        ts = texts_for(lang)
        for ti, t in enumerate(ts):
            jobs.append((lang, t, "lang"))
            if a.tier == "thorough" or (ti + li) % 4 == 0:
                jobs.append((lang, t, "lang+base"))
            if a.tier == "thorough" or (ti + li) % 6 == 0:
                jobs.append((lang, t, "auto"))
    res = pmap(work, jobs, a.procs)
    failures = []
    for r in res:
        if r is not None:
            (lang, text, mode), detail = r
            failures.append({"id": "%s:%s:%s" % (lang, mode, text[:40]), "input":
                             "search_dates(%r, %s)" % (text, mode.replace("lang", "languages=[%r]" % lang)),
                             "detail": detail})
    emit(len(jobs), len({(j[0], j[1]) for j in jobs}),
         "texts from every language's vocabulary (%d languages) x {explicit language, +RELATIVE_BASE, "
         "autodetect}; distinct = (language, text)" % len(langs), failures,
         [jobs[0][1], jobs[len(jobs) // 2][1]])


if __name__ == "__main__":
    main()
