"""The multilingual corpus used by several stand-ins: the repository's own test strings, extracted
from /repo/tests at run time (string literals passed to `param(...)` in the parser tests)."""
import ast
import os


def test_strings(repo=None, limit=None):
    import dateparser

    repo = repo or os.path.dirname(os.path.dirname(dateparser.__file__))
    files = ["test_date_parser.py", "test_date.py", "test_freshness_date_parser.py",
             "test_languages.py", "test_parser.py", "test_search.py", "test_clean_api.py",
             "test_timezone_parser.py"]
    out = []
    seen = set()
    for fn in files:
        path = os.path.join(repo, "tests", fn)
        if not os.path.exists(path):
            continue
        tree = ast.parse(open(path, encoding="utf-8").read())
        for node in ast.walk(tree):
            if isinstance(node, ast.Call) and getattr(node.func, "id", None) == "param":
                cands = list(node.args[:2]) + [k.value for k in node.keywords
                                               if k.arg in ("date_string", "datestring", "date_str",
                                                            "text", "string", "date")]
                for c in cands:
                    if isinstance(c, ast.Constant) and isinstance(c.value, str):
                        s = c.value
                        if 3 <= len(s) <= 100 and s not in seen and any(ch.isalnum() for ch in s):
                            seen.add(s)
                            out.append(s)
    out.sort()
    return out[:limit] if limit else out
