"""Front-end stand-in for the parser kernels (C01, C07, C08, C09, C10): the assumed contract
   "for a rendering f(d) of the property's format family, the English front end
    (sanitize_date -> Locale('en').translate -> strip_braces -> pop_tz_offset_from_string) hands the
    absolute parser the canonical skeleton string the kernel obligations are stated on, and the
    timestamp / relative parsers before it decline",
evaluated on boundary digit values: for every kernel family the canonical string is rendered from
the SAME templates the contracts use (contracts.c_parser / c_strict) and compared with what actually
reaches dateparser.parser._parser.parse through DateDataParser(languages=['en']).get_date_data."""
import datetime
import itertools

from standins.common import args, emit, pmap

BOUNDARY = {1: [0, 1, 5, 9], 2: [0, 1, 9, 10, 12, 13, 23, 28, 29, 30, 31, 59, 60, 99],
            3: [0, 5, 999], 4: [1, 99, 999, 1000, 1999, 2024, 9999], 6: [0, 1, 249, 999999, 123456]}


def fill(tpl, choice):
    """render a template with concrete field values; returns (canonical, {field: value})"""
    out = []
    vals = {}
    i = 0
    for p in tpl:
        if isinstance(p, str):
            out.append(p)
        else:
            name, n = p
            v = choice[i]
            i += 1
            vals[name] = v
            out.append(str(v).zfill(n))
    return "".join(out), vals


def surface_forms(canon):
    """renderings a user would write that must reach the kernel as `canon`"""
    forms = {canon, canon.upper() if any(c.isalpha() for c in canon) else canon,
             canon.title() if any(c.isalpha() for c in canon) else canon, "  " + canon + " ",
             canon.replace(" ", "  ")}
    words = canon.split(" ")
    for i, w in enumerate(words):
        if w in MONTHS_FULL and w != "may":
            forms.add(" ".join(words[:i] + [w[:3].title()] + words[i + 1:]))
            forms.add(" ".join(words[:i] + [w[:3].title() + "."] + words[i + 1:]))
        if w in DAYS_FULL:
            forms.add(" ".join(words[:i] + [w[:3].title() + ","] + words[i + 1:]))
            forms.add(" ".join(words[:i] + [w.title() + ","] + words[i + 1:]))
    if len(canon) > 16 and canon[4] == "-" and canon[10] == " ":
        forms.add(canon[:10] + "T" + canon[11:])
    return sorted(forms)


MONTHS_FULL = ["january", "february", "march", "april", "may", "june", "july", "august", "september",
               "october", "november", "december"]
DAYS_FULL = ["monday", "tuesday", "wednesday", "thursday", "friday", "saturday", "sunday"]


def families():
    from contracts import c_parser as CP
    from contracts import c_strict as CS

    fams = []
    A = CP.absolute_formats
    for case in A.cases():
        if set(case) - {"form", "month", "weekday", "fdigits", "daydigits", "ampm", "hdigits"}:
            continue
        if case["form"].endswith("tzgap"):
            continue
        fams.append(("C01:" + case["form"], A.template(case), {}))
    for case in CP.numeric_order.cases():
        if case["n1"] == case["n2"] == 2:
            fams.append(("C07:%s:%s" % (case["DATE_ORDER"], case["sep"]), CP.numeric_order.template(case),
                         {"DATE_ORDER": case["DATE_ORDER"]}))
    for name, (tpl, parts) in CS.FAMILIES.items():
        fams.append(("C10:" + name, tpl, {}))
    fams.append(("C08:month-year", ["december", " ", ("Y", 4)], {}))
    fams.append(("C09:two-digit-year", [("m", 2), "/", ("D", 2), "/", ("Y", 2)], {}))
    return fams


def work(job):
    import dateparser.parser as P
    from dateparser.date import DateDataParser

    name, tpl, settings = job
    fields = [p for p in tpl if not isinstance(p, str)]
    grids = [BOUNDARY[n] for _, n in fields]
    # a covering sample of the cartesian product: each value of each field with the others cycling
    choices = set()
    for fi, g in enumerate(grids):
        for k, v in enumerate(g):
            choices.add(tuple(v if j == fi else grids[j][(k + j) % len(grids[j])]
                              for j in range(len(grids))))
    seen = []
    orig = P._parser.parse.__func__

    def spy(cls, datestring, st, tz=None):
        seen.append(datestring)
        return orig(cls, datestring, st, tz)

    P._parser.parse = classmethod(spy)
    bad = []
    n = 0
    try:
        st = dict(settings)
        st["RELATIVE_BASE"] = datetime.datetime(2021, 8, 31, 12, 30)
        parser = DateDataParser(languages=["en"], settings=st)
        for ch in sorted(choices):
            canon, vals = fill(tpl, ch)
            for form in surface_forms(canon):
                n += 1
                del seen[:]
                try:
                    parser.get_date_data(form)
                except Exception as e:
                    bad.append((name, form, "raised %s" % type(e).__name__))
                    continue
                # the kernel must have been handed exactly the canonical string (possibly after the
                # timestamp/relative parsers declined); strings that never reach it are reported too
                if not seen or seen[0].strip() != canon.strip():
                    bad.append((name, form, "kernel received %r, canonical string is %r" % (
                        seen[:1], canon)))
    finally:
        P._parser.parse = classmethod(orig)
    return n, bad


def main():
    import argparse

    ap = argparse.ArgumentParser()
    ap.add_argument("--tier", default="quick")
    ap.add_argument("--seed", type=int, default=0)
    ap.add_argument("--procs", type=int, default=16)
    ap.add_argument("--prop", default=None)
    a = ap.parse_args()
    fams = [f for f in families() if a.prop is None or f[0].startswith(a.prop + ":")]
    res = pmap(work, fams, a.procs, chunk=1)
    failures = []
    total = 0
    for n, bad in res:
        total += n
        seen = set()
        for name, form, detail in bad:
            if name in seen:
                continue
            seen.add(name)
            failures.append({"id": "%s" % name, "input": form, "detail": detail})
    emit(total, len(fams), "every kernel family (%d) x boundary digit values x surface renderings "
         "(case, abbreviations, commas, T separator, extra spaces); distinct = families" % len(fams),
         failures, ["Tue, 05 Nov 2013 07:41:23 -> 'tuesday 05 november 2013 07:41:23'"])


if __name__ == "__main__":
    main()
