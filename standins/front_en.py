"""Front-end stand-in (bounded, end to end through the public API): the assumed contract "the English
front end (sanitize_date, Locale('en').translate, pop_tz_offset_from_string, language autodetection)
hands the kernels the canonical strings of the format family", evaluated on boundary grids.
  --part abs       C01: standard absolute formats + epoch numbers (incl. instants around DST changes)
  --part relative  C04: relative expressions against independent calendar arithmetic
  --part timeonly  C09: clock time alone across TIMEZONE values and offset-switch days
  --part order     C07: every language's / locale's own date order, explicit DATE_ORDER, MDY default
"""
import argparse
import calendar
import datetime

from standins.common import emit, pmap

DT = datetime.datetime


def grid_datetimes(tier):
    years = [1, 999, 1000, 1900, 2000, 2024, 9999] if tier == "quick" else \
        [1, 2, 99, 100, 999, 1000, 1582, 1900, 1969, 1970, 2000, 2024, 2038, 9998, 9999]
    md = [(1, 1), (2, 28), (2, 29), (11, 5), (12, 31), (10, 10)]
    times = [(0, 0, 0), (7, 41, 23), (11, 59, 59), (12, 0, 0), (23, 59, 59)]
    out = []
    for y in years:
        for m, d in md:
            if d > calendar.monthrange(y, m)[1]:
                continue
            for H, M, S in times:
                out.append(DT(y, m, d, H, M, S))
    return out


FRACTIONS = ["5", "05", "123", "0001", "00024", "000249", "999999", "123456", "000001", "254999"]


def renderings(d):
    """(string, expected datetime) pairs for one datetime"""
    y4 = "%04d" % d.year
    date = "%s-%02d-%02d" % (y4, d.month, d.day)
    hm, hms = "%02d:%02d" % (d.hour, d.minute), "%02d:%02d:%02d" % (d.hour, d.minute, d.second)
    day0 = d.replace(hour=0, minute=0, second=0)
    minute = d.replace(second=0)
    out = [(date, day0)]
    for sep in (" ", "T"):
        out.append((date + sep + hm, minute))
        out.append((date + sep + hms, d))
    for k, f in enumerate(FRACTIONS):
        if (d.year + d.month + k) % 3 == 0:
            us = int(f.ljust(6, "0"))
            out.append((date + "T" + hms + "." + f, d.replace(microsecond=us)))
            out.append((date + " " + hms + "." + f, d.replace(microsecond=us)))
    wd = calendar.day_name[d.weekday()]
    mo = calendar.month_name[d.month]
    out.append(("%s, %02d %s %s %s" % (wd[:3], d.day, mo[:3], y4, hms), d))  # RFC 2822 style
    out.append(("%s %d, %s" % (mo, d.day, y4), day0))
    out.append(("%s %02d, %s" % (mo[:3], d.day, y4), day0))
    out.append(("%d %s %s" % (d.day, mo, y4), day0))
    out.append(("%02d %s %s %s" % (d.day, mo[:3], y4, hm), minute))
    out.append(("%s, %s %d, %s" % (wd, mo, d.day, y4), day0))
    h12 = d.hour % 12 or 12
    out.append(("%s %d, %s %d:%02d %s" % (mo, d.day, y4, h12, d.minute, "AM" if d.hour < 12 else "PM"),
                minute))
    out.append(("%s %s %d %s %s" % (wd[:3], mo[:3], d.day, hms, y4), d))  # ctime
    return out


def abs_work(d):
    import dateparser
    from dateparser.date import DateDataParser

    global _EN, _AUTO
    try:
        _EN
    except NameError:
        _EN = DateDataParser(languages=["en"])
        _AUTO = DateDataParser()
    bad = []
    n = 0
    for s, want in renderings(d):
        for name, p in (("en", _EN), ("auto", _AUTO)):
            n += 1
            try:
                r = p.get_date_data(s)
                got, per = r.date_obj, r.period
            except Exception as e:
                got, per = "raised %s" % type(e).__name__, None
            if got != want or per != "day":
                bad.append(("abs:%s:%s" % (name, s), s, "got %r period %r, written %r" % (got, per, want)))
    return n, bad


def epoch_cases(tier):
    import pytz

    zones = ["UTC", "America/New_York", "Asia/Kolkata", "Europe/Berlin", "Australia/Lord_Howe"]
    ns = [10 ** 9, 1234567890, 2 ** 31 - 1, 2 ** 31, 1570308760, 9999999999]
    for zn in zones[1:]:
        z = pytz.timezone(zn)
        for t in [tt for tt in z._utc_transition_times if 2015 <= tt.year <= 2022][:6]:
            e = int((t - DT(1970, 1, 1)).total_seconds())
            ns += [e - 3600, e - 1, e, e + 1800, e + 3600]
    out = []
    for n in ns:
        if not (10 ** 9 <= n < 10 ** 10):
            continue
        for suffix in ("", "123", "123456"):
            for zn in zones:
                out.append((n, suffix, zn, False))
        out.append((n, "042", "UTC", True))
    return out


def epoch_work(job):
    import dateparser
    import pytz

    n, suffix, zn, negative = job
    s = ("-" if negative else "") + str(n) + suffix
    us = int(suffix.ljust(6, "0")) if suffix else 0
    # the written number with its sign: seconds.fraction
    total_us = (n * 1000000 + us) * (-1 if negative else 1)
    want = (DT(1970, 1, 1) + datetime.timedelta(microseconds=total_us)).replace(
        tzinfo=pytz.utc).astimezone(pytz.timezone(zn)).replace(tzinfo=None)
    st = {"TIMEZONE": zn}
    if negative:
        st["PARSERS"] = ["negative-timestamp", "timestamp", "absolute-time"]
    try:
        got = dateparser.parse(s, settings=st)
    except Exception as e:
        got = "raised %s" % type(e).__name__
    if got != want:
        return ("epoch:%s:%s" % (s, zn), "parse(%r, TIMEZONE=%r)" % (s, zn), "got %r, the instant in that zone is %r" % (got, want))
    return None


def relative_cases(tier):
    from dateutil.relativedelta import relativedelta as rd

    bases = [DT(2021, 3, 31, 23, 59, 59, 999999), DT(2020, 2, 29, 0, 0, 0), DT(1900, 1, 31, 8, 15, 42, 123456),
             DT(2199, 12, 31, 12, 0), DT(2024, 1, 1, 0, 0, 0, 1)]
    units = ["second", "minute", "hour", "day", "week", "month", "year", "decade"]
    out = []
    ns = [0, 1, 2, 11, 45, 120, 999, 5000] if tier == "quick" else [0, 1, 2, 3, 11, 29, 45, 120, 365, 999, 2500, 5000]

    def delta(u, n):
        return rd(years=10 * n) if u == "decade" else rd(**{u + "s": n})

    for b in bases:
        for u in units:
            for n in ns:
                pl = u if n == 1 else u + "s"
                out.append((b, "%d %s ago" % (n, pl), ("sub", [(u, n)]), None))
                out.append((b, "in %d %s" % (n, pl), ("add", [(u, n)]), None))
        for phrase, op, parts in (("now", "sub", []), ("today", "sub", []),
                                  ("yesterday", "sub", [("day", 1)]), ("tomorrow", "add", [("day", 1)]),
                                  ("last week", "sub", [("week", 1)]), ("next week", "add", [("week", 1)]),
                                  ("last month", "sub", [("month", 1)]), ("next month", "add", [("month", 1)]),
                                  ("last year", "sub", [("year", 1)]), ("next year", "add", [("year", 1)]),
                                  ("1 year, 2 months ago", "sub", [("year", 1), ("month", 2)]),
                                  ("3 years 2 decades ago", "sub", [("year", 3), ("decade", 2)]),
                                  ("in 3 years 2 decades 5 months", "add", [("year", 3), ("decade", 2), ("month", 5)]),
                                  ("3 hours, 50 minutes ago", "sub", [("hour", 3), ("minute", 50)]),
                                  ("in 2 weeks 3 days", "add", [("week", 2), ("day", 3)])):
            out.append((b, phrase, (op, parts), None))
        for phrase, op, parts, clock in (("yesterday at 14:30", "sub", [("day", 1)], (14, 30)),
                                         ("2 days ago 10:30", "sub", [("day", 2)], (10, 30)),
                                         ("tomorrow 9 am", "add", [("day", 1)], (9, 0)),
                                         ("in 2 weeks at 2pm", "add", [("week", 2)], (14, 0)),
                                         # sub-day units with a clock time: shift first, then the clock
                                         # time replaces the time of day
                                         ("1 second ago at 10:30 pm", "sub", [("second", 1)], (22, 30)),
                                         ("3 hours ago at 10:30", "sub", [("hour", 3)], (10, 30)),
                                         ("in 90 minutes at 23:45", "add", [("minute", 90)], (23, 45)),
                                         ("1 day 3 hours ago at 10:30", "sub", [("day", 1), ("hour", 3)], (10, 30)),
                                         ("in 30 hours 09:15", "add", [("hour", 30)], (9, 15)),
                                         ("45 minutes ago 00:05", "sub", [("minute", 45)], (0, 5))):
            out.append((b, phrase, (op, parts), clock))
    return out


def relative_work(job):
    import dateparser
    from dateutil.relativedelta import relativedelta as rd

    b, phrase, (op, parts), clock = job
    years = sum(n * (10 if u == "decade" else 1) for u, n in parts if u in ("year", "decade"))
    months = sum(n for u, n in parts if u == "month")
    rest = {u + "s": n for u, n in parts if u not in ("year", "decade", "month")}
    try:
        want = b + rd(years=years, months=months, **rest) if op == "add" else \
            b - rd(years=years, months=months, **rest)
        if clock:
            want = want.replace(hour=clock[0], minute=clock[1], second=0, microsecond=0)
    except (ValueError, OverflowError):
        want = None
    try:
        got = dateparser.parse(phrase, languages=["en"], settings={"RELATIVE_BASE": b})
    except Exception as e:
        got = "raised %s" % type(e).__name__
    if got != want:
        return ("rel:%s@%s" % (phrase, b.isoformat()), "parse(%r, RELATIVE_BASE=%r)" % (phrase, b),
                "got %r, calendar arithmetic gives %r" % (got, want))
    return None


_SRC = {}


def source_order(code):
    """date order of a language / locale in the shipped CLDR source (None when the source has none)"""
    import json
    import os
    import re

    import dateparser_data

    lang = re.split(r"-(?=[A-Z0-9]+$)", code)[0]
    if lang not in _SRC:
        p = os.path.join(os.path.dirname(os.path.abspath(dateparser_data.__file__)), "cldr_language_data",
                         "date_translation_data", lang + ".json")
        _SRC[lang] = json.load(open(p, encoding="utf-8")) if os.path.exists(p) else None
    d = _SRC[lang]
    if d is None:
        return None
    if code == lang:
        return d.get("date_order")
    return d.get("locale_specific", {}).get(code, {}).get("date_order", d.get("date_order"))


def order_work(job):
    from dateparser.date import DateDataParser

    code, kind = job
    from standins.vocab import info_of

    info = info_of(code)
    order = info.get("date_order", "MDY")
    # "as the locale's users would read them": the order recorded in the CLDR source the repository
    # ships (dateparser_data/cldr_language_data, not part of the package) is the reference; the
    # package's own data must agree with it
    src = source_order(code)
    early = []
    if src is not None and src != order:
        early.append(("order:%s:differs-from-cldr-source" % code, "date_order of %s" % code,
                      "package data says %s, dateparser_data/cldr_language_data says %s" % (order, src)))
        order = src
    kw = {"languages": [code]} if kind == "language" else {"locales": [code]}
    bad = list(early)
    n = 0
    fields = {"D": 2, "M": 3, "Y": 2016}

    def written(o, sep):
        return sep.join("%02d" % fields[c] if c != "Y" else "%d" % fields[c] for c in o)

    want = DT(2016, 3, 2)
    for sep in ("/", "-", "."):
        # the locale's own order
        s = written(order, sep)
        n += 1
        r = DateDataParser(**kw).get_date_data(s).date_obj
        if r != want:
            bad.append(("order:%s:own:%s" % (code, s), "languages/locales=%s, %r" % (code, s),
                        "got %r, the locale's order %s reads %r" % (r, order, want)))
        # PREFER_LOCALE_DATE_ORDER off -> MDY
        s = written("MDY", sep)
        n += 1
        r = DateDataParser(settings={"PREFER_LOCALE_DATE_ORDER": False}, **kw).get_date_data(s).date_obj
        if r != want:
            bad.append(("order:%s:mdy-default:%s" % (code, s), "%s PREFER_LOCALE_DATE_ORDER=False %r" % (code, s),
                        "got %r, MDY reads %r" % (r, want)))
    for o in ("DMY", "MDY", "YMD", "YDM", "DYM", "MYD"):
        s = written(o, "/")
        n += 1
        r = DateDataParser(settings={"DATE_ORDER": o}, **kw).get_date_data(s).date_obj
        if r != want:
            bad.append(("order:%s:explicit-%s:%s" % (code, o, s), "%s DATE_ORDER=%s %r" % (code, o, s),
                        "got %r, the supplied order reads %r" % (r, want)))
    return n, bad


TIMEONLY_ZONES = ["UTC", "America/New_York", "Europe/Berlin", "Asia/Kolkata", "Australia/Lord_Howe",
                  "America/Sao_Paulo", "EST", "+0530", "local"]


def timeonly_cases(tier):
    """clock time alone x TIMEZONE x reference days (incl. the days on which the zones switch their
    offset, and references a fraction of a second off the named time) x preference"""
    refs = [DT(2021, 3, 14, 12, 0), DT(2021, 3, 14, 1, 15), DT(2021, 3, 15, 0, 30), DT(2021, 11, 7, 12, 0),
            DT(2021, 3, 28, 12, 0), DT(2021, 3, 29, 1, 0), DT(2021, 10, 3, 9, 0), DT(2021, 4, 4, 9, 0),
            DT(2021, 6, 15, 18, 0, 0, 500000), DT(2021, 6, 15, 2, 30, 0, 1), DT(2020, 2, 28, 23, 59, 59, 999999)]
    times = [(2, 30), (3, 0), (1, 59), (0, 0), (12, 0), (18, 0), (23, 59), (2, 0), (2, 15)]
    if tier != "quick":
        times += [(h, m) for h in range(24) for m in (5, 45)]
        refs += [DT(2021, 3, 14, h, 20) for h in range(0, 24, 3)] + [DT(2021, 3, 28, h, 40) for h in range(0, 24, 3)]
    out = []
    for z in TIMEONLY_ZONES:
        for b in refs:
            for t in times:
                for pref in ("past", "future", "current_period"):
                    out.append((z, b, t, pref))
    return out


def timeonly_work(job):
    import dateparser

    z, b, (hh, mm), pref = job
    s = "%02d:%02d" % (hh, mm)
    st = {"RELATIVE_BASE": b, "TIMEZONE": z, "PREFER_DATES_FROM": pref}
    ident = "timeonly:%s:%s:%s:%s" % (z, b.isoformat(), s, pref)
    try:
        r = dateparser.parse(s, languages=["en"], settings=st)
    except Exception as e:
        return (ident, "parse(%r, %r)" % (s, st), "raised %r" % (e,))
    if r is None:
        return (ident, "parse(%r, %r)" % (s, st), "not recognised")
    if (r.hour, r.minute, r.second, r.microsecond) != (hh, mm, 0, 0):
        return (ident, "parse(%r, %r)" % (s, st), "the named time of day is not preserved: %r" % (r,))
    if abs((r.date() - b.date()).days) > 1:
        return (ident, "parse(%r, %r)" % (s, st), "more than a day away from the reference: %r" % (r,))
    if z == "UTC":
        if pref == "past" and r > b:
            return (ident, "parse(%r, %r)" % (s, st), "'past' result after the reference: %r" % (r,))
        if pref == "future" and r < b:
            return (ident, "parse(%r, %r)" % (s, st), "'future' result before the reference: %r" % (r,))
        if pref == "current_period" and r.date() != b.date():
            return (ident, "parse(%r, %r)" % (s, st), "'current_period' left the reference day: %r" % (r,))
    return None


def main():
    ap = argparse.ArgumentParser()
    ap.add_argument("--tier", default="quick")
    ap.add_argument("--seed", type=int, default=0)
    ap.add_argument("--part", default="abs")
    ap.add_argument("--procs", type=int, default=16)
    a = ap.parse_args()
    failures = []
    if a.part == "abs":
        ds = grid_datetimes(a.tier)
        res = pmap(abs_work, ds, a.procs)
        total = sum(r[0] for r in res)
        for _, bad in res:
            failures += [{"id": i, "input": s, "detail": d} for i, s, d in bad]
        ep = epoch_cases(a.tier)
        for r in pmap(epoch_work, ep, a.procs):
            if r:
                failures.append({"id": r[0], "input": r[1], "detail": r[2]})
        emit(total + len(ep), len(ds) * 20 + len(ep), "boundary grid of %d datetimes x every rendering of the "
             "standard family x {en, autodetect}; %d epoch numbers x suffixes x zones (incl. instants "
             "around DST changes)" % (len(ds), len(ep)), failures, [renderings(ds[3])[5][0], "1234567890123"])
    elif a.part == "relative":
        cs = relative_cases(a.tier)
        for r in pmap(relative_work, cs, a.procs):
            if r:
                failures.append({"id": r[0], "input": r[1], "detail": r[2]})
        emit(len(cs), len({c[1] for c in cs}), "relative phrases x bases (month ends, leap day, "
             "microseconds) vs dateutil arithmetic", failures, [cs[0][1], cs[-1][1]])
    elif a.part == "timeonly":
        cs = timeonly_cases(a.tier)
        for r in pmap(timeonly_work, cs, a.procs):
            if r:
                failures.append({"id": r[0], "input": r[1], "detail": r[2]})
        emit(len(cs), len(cs), "clock time alone x %d TIMEZONE values x reference days (offset-switch "
             "days, sub-second references) x 3 preferences: time of day preserved, within a day of "
             "the reference; ordering for TIMEZONE=UTC" % len(TIMEONLY_ZONES), failures,
             ["02:30 @2021-03-14 America/New_York past"])
    else:
        from standins.vocab import all_codes

        jobs = all_codes()
        res = pmap(order_work, jobs, a.procs, chunk=4)
        total = 0
        for n, bad in res:
            total += n
            failures += [{"id": i, "input": s, "detail": d} for i, s, d in bad]
        emit(total, len(jobs), "every language and locale: own order, MDY default, six explicit orders",
             failures, ["02/03/2016 (fr -> DMY)"], exhaustive=True)


if __name__ == "__main__":
    main()
