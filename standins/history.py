"""C03 stand-in (bounded): result(c after history h) == result(c in a fresh process), for a fixed pool
of API calls (varied settings, languages, cache limits, failing calls, search, calendars) and a
deterministic family of histories; and fresh-process results agree across interpreter hash seeds."""
import json
import os
import subprocess
import sys

from standins.common import args, emit, pmap

PRELUDE = '''
import sys, datetime, json
import dateparser
from dateparser.date import DateDataParser
from dateparser.search import search_dates
from dateparser.calendars.jalali import JalaliCalendar
from dateparser.calendars.hijri import HijriCalendar
B = datetime.datetime(2020, 5, 15, 12, 30)
def R(f):
    try:
        return repr(f())
    except Exception as e:
        return "raised " + type(e).__name__
'''

POOL = [
    "dateparser.parse('12/13/2020')",
    "dateparser.parse('02/03/2016', languages=['fr'])",
    "dateparser.parse('02/03/2016', languages=['fr', 'en'], settings={'DATE_ORDER': 'MDY'})",
    "dateparser.parse('02/03/2016', languages=['fr'], settings={'PREFER_LOCALE_DATE_ORDER': False})",
    "dateparser.parse('10:15', settings={'PREFER_DATES_FROM': 'past', 'RELATIVE_BASE': B})",
    "dateparser.parse('in 2 days', settings={'RELATIVE_BASE': B})",
    "dateparser.parse('31/02/2020', languages=['fr'])",
    "dateparser.parse('x', settings={'DATE_ORDER': 'XYZ'})",
    "dateparser.parse('12 janvier 2015', languages=['fr'], settings={'CACHE_SIZE_LIMIT': 1})",
    "dateparser.parse('12 janvier 2015', languages=['fr'], settings={'CACHE_SIZE_LIMIT': 1, 'DATE_ORDER': 'DMY'})",
    "dateparser.parse('12 enero 2015', languages=['es'], settings={'CACHE_SIZE_LIMIT': 1})",
    "dateparser.parse('12 t janvier 2015', languages=['fr'], settings={'SKIP_TOKENS': ['janvier']})",
    "dateparser.parse('12 février 2015', languages=['fr'], settings={'NORMALIZE': False})",
    "dateparser.parse('12 fevrier 2015', languages=['fr'])",
    "dateparser.parse('12 janvier 2015', languages=['de'], settings={'DEFAULT_LANGUAGES': ['fr']})",
    "dateparser.parse('1 hour ago', settings={'PARSERS': ['absolute-time'], 'RELATIVE_BASE': B})",
    "dateparser.parse('March', settings={'RELATIVE_BASE': B, 'PREFER_DATES_FROM': 'future'})",
    "dateparser.parse('Die 13.01.2000', languages=['de'])",
    "dateparser.parse('Monday', languages=['xx'])",
    "DateDataParser(languages=['tl']).get_date_data('02/01/2020').date_obj",
    "DateDataParser(languages=['fr', 'tl']).get_date_data('02/13/2020').locale",
    "DateDataParser(locales=['fr-MA']).get_date_data('12 mar 2015').date_obj",
    "DateDataParser(languages=['fr'], settings={'RELATIVE_BASE': B}).get_date_data('mar').date_obj",
    "search_dates('on 4 October 1957 and then on 20 March', languages=['en'], settings={'PREFER_DATES_FROM': 'past'})",
    "search_dates('on 4 October 1957 and then on 20 March', languages=['en'])",
    "search_dates('10/11/2020', languages=['fr', 'en'], add_detected_language=True)",
    "search_dates('05.06.2019 - 07.08.2019', languages=['de', 'en', 'es'], add_detected_language=True)",
    "search_dates('Er kam gestern und geht am 3. März 2021', settings={'RELATIVE_BASE': B})",
    "JalaliCalendar('1399/01/01').get_date().date_obj",
    "HijriCalendar('1441-05-10').get_date().date_obj",
    "JalaliCalendar('1400/05/10').get_date().date_obj",
    "HijriCalendar('1400-05-10').get_date().date_obj",
]


def run_script(calls, hashseed=0):
    body = PRELUDE + "out = []\n" + "".join("out.append(R(lambda: %s))\n" % c for c in calls) \
        + "print(json.dumps(out))\n"
    env = dict(os.environ)
    env["PYTHONHASHSEED"] = str(hashseed)
    r = subprocess.run([sys.executable, "-c", body], capture_output=True, text=True, env=env,
                       timeout=300)
    if r.returncode != 0:
        return ["SCRIPT CRASHED: " + r.stderr[-300:]] * len(calls)
    return json.loads(r.stdout.strip().splitlines()[-1])


def fresh(job):
    i, seed = job
    return (i, seed, run_script([POOL[i]], seed)[0])


def history(job):
    h, seed = job
    return (h, seed, run_script([POOL[i] for i in h], seed))


def main():
    a = args()
    n = len(POOL)
    seeds = (0, 1, 2, 3) if a.tier == "quick" else tuple(range(8))
    failures = []
    fr = pmap(fresh, [(i, s) for i in range(n) for s in seeds], a.procs, chunk=1)
    base = {}
    for i, s, r in fr:
        if s == 0:
            base[i] = r
    for i, s, r in fr:
        if r != base[i]:
            failures.append({"id": "hashseed:%d" % i, "input": POOL[i] + "  [PYTHONHASHSEED=%d vs 0]" % s,
                             "detail": "%s  vs  %s" % (r[:150], base[i][:150])})
    K = 48 if a.tier == "quick" else 400
    hs = []
    for k in range(K):
        L = 6 + k % 5
        hs.append([(k * 7 + j * (3 + k % 4) + (j * j) % 5) % n for j in range(L)])
    # every call directly after every "interesting" predecessor (failing / custom-settings calls)
    for p in (6, 7, 9, 23, 21, 28, 29):
        for c in range(n):
            if a.tier == "thorough" or (c + p) % 3 == 0:
                hs.append([p, c])
    res = pmap(history, [(h, 0) for h in hs], a.procs, chunk=1)
    evals = len(fr)
    for h, s, out in res:
        for pos, (i, r) in enumerate(zip(h, out)):
            evals += 1
            if r != base[i]:
                failures.append({"id": "history:%d" % i,
                                 "input": "after %r: %s" % ([POOL[j][:50] for j in h[:pos]], POOL[i]),
                                 "detail": "after history: %s ; fresh process: %s" % (r[:150], base[i][:150])})
    seen, uniq = set(), []
    for f in failures:
        if f["id"] not in seen:
            seen.add(f["id"])
            uniq.append(f)
    emit(evals, n, "fixed pool of %d API calls; %d deterministic histories (length 2..10) + every call "
         "in a fresh process under %d hash seeds; distinct = calls" % (n, len(hs), len(seeds)),
         uniq, [POOL[0], POOL[9], POOL[23]])


if __name__ == "__main__":
    main()
