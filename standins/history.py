"""C03 stand-in (bounded): result(c after history h) == result(c in a fresh process), for a fixed pool
of API calls (varied settings, languages, cache limits, failing calls, search, calendars) and a
deterministic family of histories; and fresh-process results agree across interpreter hash seeds."""
import json
import os
import subprocess
import sys

from standins.common import args, emit, pmap

PRELUDE = '''
import sys, datetime, json
import dateparser
from dateparser.date import DateDataParser
from dateparser.search import search_dates
from dateparser.calendars.jalali import JalaliCalendar
from dateparser.calendars.hijri import HijriCalendar
B = datetime.datetime(2020, 5, 15, 12, 30)
def R(f):
    try:
        return repr(f())
    except Exception as e:
        return "raised " + type(e).__name__
'''

POOL = [
    "dateparser.parse('12/13/2020')",
    "dateparser.parse('02/03/2016', languages=['fr'])",
    "dateparser.parse('02/03/2016', languages=['fr', 'en'], settings={'DATE_ORDER': 'MDY'})",
    "dateparser.parse('02/03/2016', languages=['fr'], settings={'PREFER_LOCALE_DATE_ORDER': False})",
    "dateparser.parse('10:15', settings={'PREFER_DATES_FROM': 'past', 'RELATIVE_BASE': B})",
    "dateparser.parse('in 2 days', settings={'RELATIVE_BASE': B})",
    "dateparser.parse('31/02/2020', languages=['fr'])",
    "dateparser.parse('x', settings={'DATE_ORDER': 'XYZ'})",
    "dateparser.parse('12 janvier 2015', languages=['fr'], settings={'CACHE_SIZE_LIMIT': 1})",
    "dateparser.parse('12 janvier 2015', languages=['fr'], settings={'CACHE_SIZE_LIMIT': 1, 'DATE_ORDER': 'DMY'})",
    "dateparser.parse('12 enero 2015', languages=['es'], settings={'CACHE_SIZE_LIMIT': 1})",
    "dateparser.parse('12 t janvier 2015', languages=['fr'], settings={'SKIP_TOKENS': ['janvier']})",
    "dateparser.parse('12 février 2015', languages=['fr'], settings={'NORMALIZE': False})",
    "dateparser.parse('12 fevrier 2015', languages=['fr'])",
    "dateparser.parse('12 janvier 2015', languages=['de'], settings={'DEFAULT_LANGUAGES': ['fr']})",
    "dateparser.parse('1 hour ago', settings={'PARSERS': ['absolute-time'], 'RELATIVE_BASE': B})",
    "dateparser.parse('March', settings={'RELATIVE_BASE': B, 'PREFER_DATES_FROM': 'future'})",
    "dateparser.parse('Die 13.01.2000', languages=['de'])",
    "dateparser.parse('Monday', languages=['xx'])",
    "DateDataParser(languages=['tl']).get_date_data('02/01/2020').date_obj",
    "DateDataParser(languages=['fr', 'tl']).get_date_data('02/13/2020').locale",
    "DateDataParser(locales=['fr-MA']).get_date_data('12 mar 2015').date_obj",
    "DateDataParser(languages=['fr'], settings={'RELATIVE_BASE': B}).get_date_data('mar').date_obj",
    "search_dates('on 4 October 1957 and then on 20 March', languages=['en'], settings={'PREFER_DATES_FROM': 'past'})",
    "search_dates('on 4 October 1957 and then on 20 March', languages=['en'])",
    "search_dates('10/11/2020', languages=['fr', 'en'], add_detected_language=True)",
    "search_dates('05.06.2019 - 07.08.2019', languages=['de', 'en', 'es'], add_detected_language=True)",
    "search_dates('Er kam gestern und geht am 3. März 2021', settings={'RELATIVE_BASE': B})",
    "JalaliCalendar('1399/01/01').get_date().date_obj",
    "HijriCalendar('1441-05-10').get_date().date_obj",
    "JalaliCalendar('1400/05/10').get_date().date_obj",
    "HijriCalendar('1400-05-10').get_date().date_obj",
    # 32.. (appended: indices above are referred to by number below)
    "dateparser.parse('32 janvier 2015', languages=['fr'])",
    "dateparser.parse('99/99/9999')",
    "dateparser.parse('2015-03-04', settings={'PREFER_LOCALE_DATE_ORDER': False, 'RETURN_AS_TIMEZONE_AWARE': False})",
    "dateparser.parse('2015-03-04 10:20:30', languages=['en'], settings={'PREFER_LOCALE_DATE_ORDER': False, 'PREFER_DAY_OF_MONTH': 'first'})",
    "dateparser.parse('02/03/2016', languages=['fr'], settings={'PREFER_LOCALE_DATE_ORDER': True})",
    "DateDataParser(languages=['es', 'tl']).get_date_data('Lunes 02/13/2021').date_obj",
    "DateDataParser(languages=['tl']).get_date_data('Lunes 02/03/2021').date_obj",
    "dateparser.parse('15 mars', languages=['fr'], settings={'REQUIRE_PARTS': ['year']})",
    "dateparser.parse('10 jan 11', languages=['ja'], settings={'DEFAULT_LANGUAGES': ['sv', 'en']})",
    # 41..
    "dateparser.parse('03 04 05 2015', languages=['en'])",
    "dateparser.parse('March 2015', languages=['en'], settings={'RELATIVE_BASE': B})",
    "dateparser.parse('2015', languages=['en'], settings={'RELATIVE_BASE': B})",
    "dateparser.parse('12 foo March 2020', languages=['en'], settings={'NORMALIZE': False, 'SKIP_TOKENS': ['foo']})",
    "dateparser.parse('12 foo March 2020', languages=['en'], settings={'NORMALIZE': False, 'RELATIVE_BASE': B})",
    "dateparser.parse('10:30', settings={'TIMEZONE': 'Europe/Berlin', 'RELATIVE_BASE': datetime.datetime(2015, 1, 15, 9, 45), 'PREFER_DATES_FROM': 'future'})",
    "dateparser.parse('10:30', settings={'TIMEZONE': 'Europe/Berlin', 'RELATIVE_BASE': datetime.datetime(2015, 7, 15, 9, 30), 'PREFER_DATES_FROM': 'future'})",
    "search_dates('Am 12. März 2020 hat es geregnet', languages=['fr', 'de'], settings={'RELATIVE_BASE': B})",
    "search_dates('Il a plu le 12 mars 2020 à Paris', languages=['de', 'fr'], settings={'RELATIVE_BASE': B})",
    "dateparser.parse('17 février 2013', languages=['fr'], settings={'NORMALIZE': False})",
    "dateparser.parse('17 février 2013', languages=['fr'])",
    # 52.. default-everything calls (the shared module-level parser)
    "dateparser.parse('12 janvier 2015')",
    "dateparser.parse('01/02/2003')",
    "dateparser.parse('3.4.2015 10:30')",
    "dateparser.parse('13 Dezember 2015')",
    "dateparser.parse('07-08-09')",
    "search_dates('on 4 October 1957 and then 2 days ago')",
    "dateparser.parse('2 days ago')  and None",
]

# explicit (predecessor, call) pairs: a failing attempt under a non-MDY locale, then order-sensitive calls
PAIRS = [(32, 34), (32, 35), (33, 34), (33, 35), (32, 38), (33, 38), (37, 38), (6, 34), (6, 38),
         (36, 2), (36, 3), (32, 0), (33, 0), (41, 42), (41, 43), (44, 45), (45, 44), (46, 47), (47, 46),
         (48, 49), (49, 48), (50, 51), (51, 50), (21, 25), (25, 48), (52, 53), (52, 54), (55, 56), (52, 56),
         (55, 53), (57, 53)]

# parser objects that are kept and reused: (constructor, probe string).  The probe's answer must be
# the same before and after any other API call, and equal to a fresh process's answer.
KEPT = [
    ("DateDataParser(languages=['fr'], settings={'DATE_ORDER': 'MDY'})", "02/03/2020"),
    ("DateDataParser(languages=['de'], settings={'DATE_ORDER': 'MDY'})", "02.03.2020"),
    ("DateDataParser(languages=['fr'])", "02/03/2020"),
    ("DateDataParser(languages=['en'], settings={'PREFER_LOCALE_DATE_ORDER': False})", "2015-03-04"),
    ("DateDataParser(languages=['tl'])", "Lunes 02/03/2021"),
    ("DateDataParser(languages=['fr'], settings={'REQUIRE_PARTS': ['year'], 'RELATIVE_BASE': B})", "15 mars"),
    ("DateDataParser(languages=['en'], settings={'TIMEZONE': 'UTC', 'TO_TIMEZONE': 'Asia/Tokyo'})",
     "2015-03-04 10:00"),
    ("DateDataParser(languages=['ja'], settings={'DEFAULT_LANGUAGES': DL}, use_given_order=True)", "10 jan 11"),
]
BETWEEN = [
    "dateparser.parse('02/03/2016', languages=['fr'], settings={'PREFER_LOCALE_DATE_ORDER': True})",
    "dateparser.parse('32 janvier 2015', languages=['fr'])",
    "dateparser.parse('99/99/9999')",
    "dateparser.parse('12 janvier 2015', languages=['fr'], settings={'DATE_ORDER': 'DMY'})",
    "dateparser.parse('1 hour ago', settings={'TIMEZONE': 'US/Eastern', 'RELATIVE_BASE': B})",
    "dateparser.parse('15 mars', languages=['fr'], settings={'RELATIVE_BASE': B})",
    "DateDataParser(languages=['ja'], settings={'DEFAULT_LANGUAGES': DL}).get_date_data('10 jan 11')",
    "search_dates('10/11/2020', languages=['fr', 'en'])",
]


def kept(job):
    k, b = job
    ctor, probe = KEPT[k]
    one = "(lambda d: (d.date_obj, d.period, d.locale))(%s.get_date_data(%r))"
    body = PRELUDE + "DL = ['sv', 'en']\np = " + ctor + "\nout = []\n" \
        + "out.append(R(lambda: %s))\n" % (one % ("p", probe)) \
        + "R(lambda: %s)\n" % BETWEEN[b] \
        + "out.append(R(lambda: %s))\n" % (one % ("p", probe)) \
        + "print(json.dumps(out))\n"
    env = dict(os.environ)
    env["PYTHONHASHSEED"] = "0"
    r = subprocess.run([sys.executable, "-c", body], capture_output=True, text=True, env=env,
                       timeout=300)
    if r.returncode != 0:
        return (k, b, ["SCRIPT CRASHED: " + r.stderr[-300:]] * 2)
    return (k, b, json.loads(r.stdout.strip().splitlines()[-1]))


def kept_fresh(k):
    ctor, probe = KEPT[k]
    one = "(lambda d: (d.date_obj, d.period, d.locale))(%s.get_date_data(%r))" % (ctor, probe)
    body = PRELUDE + "DL = ['sv', 'en']\nprint(json.dumps([R(lambda: %s)]))\n" % one
    env = dict(os.environ)
    env["PYTHONHASHSEED"] = "0"
    r = subprocess.run([sys.executable, "-c", body], capture_output=True, text=True, env=env,
                       timeout=300)
    if r.returncode != 0:
        return (k, "SCRIPT CRASHED: " + r.stderr[-300:])
    return (k, json.loads(r.stdout.strip().splitlines()[-1])[0])


def run_script(calls, hashseed=0):
    body = PRELUDE + "out = []\n" + "".join("out.append(R(lambda: %s))\n" % c for c in calls) \
        + "print(json.dumps(out))\n"
    env = dict(os.environ)
    env["PYTHONHASHSEED"] = str(hashseed)
    r = subprocess.run([sys.executable, "-c", body], capture_output=True, text=True, env=env,
                       timeout=300)
    if r.returncode != 0:
        return ["SCRIPT CRASHED: " + r.stderr[-300:]] * len(calls)
    return json.loads(r.stdout.strip().splitlines()[-1])


def fresh(job):
    i, seed = job
    return (i, seed, run_script([POOL[i]], seed)[0])


def history(job):
    h, seed = job
    return (h, seed, run_script([POOL[i] for i in h], seed))


def main():
    a = args()
    n = len(POOL)
    seeds = (0, 1, 2, 3) if a.tier == "quick" else tuple(range(8))
    failures = []
    fr = pmap(fresh, [(i, s) for i in range(n) for s in seeds], a.procs, chunk=1)
    base = {}
    for i, s, r in fr:
        if s == 0:
            base[i] = r
    for i, s, r in fr:
        if r != base[i]:
            failures.append({"id": "hashseed:%d" % i, "input": POOL[i] + "  [PYTHONHASHSEED=%d vs 0]" % s,
                             "detail": "%s  vs  %s" % (r[:150], base[i][:150])})
    K = 48 if a.tier == "quick" else 400
    hs = []
    for k in range(K):
        L = 6 + k % 5
        hs.append([(k * 7 + j * (3 + k % 4) + (j * j) % 5) % n for j in range(L)])
    # every call directly after every "interesting" predecessor (failing / custom-settings calls)
    for p in (6, 7, 9, 23, 21, 28, 29):
        for c in range(n):
            if a.tier == "thorough" or (c + p) % 3 == 0:
                hs.append([p, c])
    hs += [list(pr) for pr in PAIRS]
    res = pmap(history, [(h, 0) for h in hs], a.procs, chunk=1)
    kf = dict(pmap(kept_fresh, list(range(len(KEPT))), a.procs, chunk=1))
    for k, b, out in pmap(kept, [(k, b) for k in range(len(KEPT)) for b in range(len(BETWEEN))],
                          a.procs, chunk=1):
        for when, r in zip(("before", "after"), out):
            if r != kf[k]:
                failures.append({"id": "kept:%d:%s" % (k, when),
                                 "input": "p = %s; p.get_date_data(%r) %s %s" % (
                                     KEPT[k][0], KEPT[k][1], when, BETWEEN[b]),
                                 "detail": "kept parser: %s ; fresh process: %s" % (r[:150], kf[k][:150])})
    evals = len(fr) + 2 * len(KEPT) * len(BETWEEN)
    for h, s, out in res:
        for pos, (i, r) in enumerate(zip(h, out)):
            evals += 1
            if r != base[i]:
                failures.append({"id": "history:%d" % i,
                                 "input": "after %r: %s" % ([POOL[j][:50] for j in h[:pos]], POOL[i]),
                                 "detail": "after history: %s ; fresh process: %s" % (r[:150], base[i][:150])})
    seen, uniq = set(), []
    for f in failures:
        if f["id"] not in seen:
            seen.add(f["id"])
            uniq.append(f)
    emit(evals, n, "fixed pool of %d API calls; %d deterministic histories (length 2..10) + every call "
         "in a fresh process under %d hash seeds; distinct = calls" % (n, len(hs), len(seeds)),
         uniq, [POOL[0], POOL[9], POOL[23]])


if __name__ == "__main__":
    main()
