"""C02 stand-in (bounded): dateparser.parse / DateDataParser.get_date_data over a deterministic family
of strings (the repository's test corpus and mutations of it, token soups from several languages'
vocabularies, digit/separator soups up to 100 characters, assorted Unicode) crossed with a grid of
valid settings (every documented key, reference times at both ends of the range, naive and aware),
language choices and date_formats:
  returns None or a datetime / a DateData with a documented period and (date_obj None => locale None);
  raises nothing but TypeError / ValueError (SettingValidationError is a ValueError)."""
import datetime
import hashlib

from standins.common import args, emit, pmap
from standins.corpus import test_strings

UTC = datetime.timezone.utc
SETTINGS = [
    {},
    {"RELATIVE_BASE": datetime.datetime.min},
    {"RELATIVE_BASE": datetime.datetime.max},
    {"RELATIVE_BASE": datetime.datetime.max, "PREFER_DATES_FROM": "future"},
    {"RELATIVE_BASE": datetime.datetime.min, "PREFER_DATES_FROM": "past"},
    {"RELATIVE_BASE": datetime.datetime(9999, 12, 31, 23, 59, tzinfo=UTC), "PREFER_DATES_FROM": "future",
     "TIMEZONE": "UTC"},
    {"RELATIVE_BASE": datetime.datetime(1, 1, 1, 0, 5, tzinfo=UTC), "PREFER_DATES_FROM": "past",
     "TO_TIMEZONE": "Pacific/Kiritimati"},
    {"TIMEZONE": "Pacific/Kiritimati", "TO_TIMEZONE": "Pacific/Pago_Pago",
     "RETURN_AS_TIMEZONE_AWARE": True, "RELATIVE_BASE": datetime.datetime.max},
    {"TIMEZONE": "EST", "RETURN_AS_TIMEZONE_AWARE": False, "RELATIVE_BASE": datetime.datetime.min},
    {"DATE_ORDER": "YDM", "PREFER_LOCALE_DATE_ORDER": False, "STRICT_PARSING": True},
    {"REQUIRE_PARTS": ["day", "year"], "PREFER_DAY_OF_MONTH": "last", "PREFER_MONTH_OF_YEAR": "first"},
    {"PARSERS": ["no-spaces-time", "negative-timestamp", "timestamp", "relative-time",
                 "custom-formats", "absolute-time"], "RETURN_TIME_AS_PERIOD": True},
    {"PARSERS": ["absolute-time", "timestamp"]},
    {"PARSERS": ["absolute-time", "custom-formats", "relative-time"], "PREFER_DATES_FROM": "future"},
    {"NORMALIZE": False, "SKIP_TOKENS": ["t", "at", "the"], "DEFAULT_LANGUAGES": ["en", "fr"],
     "CACHE_SIZE_LIMIT": 1, "LANGUAGE_DETECTION_CONFIDENCE_THRESHOLD": 0.1},
]
LANGS = [None, ["en"], ["fr", "de", "es"], ["zh", "ja"], ["ru"], ["ar", "fa", "hi", "th"]]
FORMATS = [None, ["%Y-%m-%d"], ["%d %B %Y", "%H:%M", "%y%m%d%H%M"], ["%B", "%m", "%d"]]


def strings(tier):
    corpus = test_strings()
    out = list(corpus[:: (5 if tier == "quick" else 1)])
    rot = lambda s, k: s[k % max(1, len(s)):] + s[:k % max(1, len(s))]
    for i, s in enumerate(corpus[::7]):
        out += [s.upper(), s[::-1], s + s, rot(s, i), s.replace(" ", ""), s[: len(s) // 2],
                s + " " + corpus[(i * 13) % len(corpus)], "(" + s + ")", s.replace("1", "١")]
    toks = ["ago", "in", "an", "hour", "monday", "lundi", "月", "年", "١٢", "pm", "am", "utc", "+0530",
            "-1000", "t", "z", "st", "th", "of", "de", "le", "вчера", "назад", "сек", ":", ".", "/",
            "-", ",", "0", "00", "12", "31", "99", "1000", "9999", "10000", "2147483648"]
    for i in range(600 if tier == "quick" else 4000):
        h = int(hashlib.md5(b"%d" % i).hexdigest(), 16)
        n = 1 + h % 9
        parts = []
        for j in range(n):
            h, r = divmod(h, len(toks))
            parts.append(toks[r])
        out.append((" " if i % 3 else "").join(parts)[:100])
    for i in range(300 if tier == "quick" else 2000):
        h = int(hashlib.md5(b"d%d" % i).hexdigest(), 16)
        n = 1 + h % 100
        alpha = "0123456789:/-. ,+"
        s = ""
        while len(s) < n:
            h, r = divmod(h, len(alpha))
            s += alpha[r]
            if h == 0:
                h = int(hashlib.md5(s.encode()).hexdigest(), 16)
        out.append(s)
    out += ["", " ", "\x00", "퟿", "🕒 3pm", "a" * 100, "9" * 100, "\n\n", "０１/０２/２０２０", "١٢‏/٠٣‏/٢٠٢٠",
            "1e9", "nan", "-0", "00:00:60", "24:00", "31/02/2020", "0000-00-00", "9999-12-31 23:59 -0500",
            "0001-01-01 00:00 +1400", "Monday", "00:10", "in 9999 years", "9999999 days ago",
            "in 999999999999 seconds", "1 decade ago", "in 1000 decades"]
    seen, uniq = set(), []
    for s in out:
        s = s[:100]
        if s not in seen:
            seen.add(s)
            uniq.append(s)
    return uniq


def work(job):
    import dateparser
    from dateparser.date import DateData, DateDataParser

    i, s = job
    bad = []
    n = 0
    combos = [(i + k) for k in range(3)]
    for c in combos:
        st = SETTINGS[c % len(SETTINGS)]
        lg = LANGS[(c // 2) % len(LANGS)]
        fm = FORMATS[(c // 3) % len(FORMATS)]
        n += 2
        try:
            r = dateparser.parse(s, date_formats=fm, languages=lg, settings=dict(st))
            if r is not None and not isinstance(r, datetime.datetime):
                bad.append((s, c, "parse returned %r" % (r,)))
        except (TypeError, ValueError):
            pass
        except Exception as e:
            bad.append((s, c, "parse raised %s: %s" % (type(e).__name__, str(e)[:60])))
        try:
            d = DateDataParser(languages=lg, settings=dict(st)).get_date_data(s, fm)
            ok = isinstance(d, DateData) and d.period in ("time", "day", "week", "month", "year") and (
                d.date_obj is not None or d.locale is None) and (
                d.date_obj is None or isinstance(d.date_obj, datetime.datetime))
            if not ok:
                bad.append((s, c, "get_date_data returned %r" % (d,)))
        except (TypeError, ValueError):
            pass
        except Exception as e:
            bad.append((s, c, "get_date_data raised %s: %s" % (type(e).__name__, str(e)[:60])))
    return n, bad


# wall clocks that a real zone skips or repeats: as RELATIVE_BASE, and as what a relative phrase
# or a clock time lands on (full cross product with the strings below)
D = datetime.datetime
ZONE_EDGE_SETTINGS = [
    {"RELATIVE_BASE": D(2021, 3, 15, 2, 30), "TIMEZONE": "America/New_York"},
    {"RELATIVE_BASE": D(2021, 3, 13, 2, 30), "TIMEZONE": "America/New_York", "TO_TIMEZONE": "UTC"},
    {"RELATIVE_BASE": D(2021, 3, 14, 2, 30), "TIMEZONE": "America/New_York",
     "RETURN_AS_TIMEZONE_AWARE": True},
    {"RELATIVE_BASE": D(2021, 11, 8, 1, 30), "TIMEZONE": "America/New_York"},
    {"RELATIVE_BASE": D(2021, 11, 7, 1, 30), "TIMEZONE": "America/New_York", "TO_TIMEZONE": "Asia/Tokyo"},
    {"RELATIVE_BASE": D(2021, 4, 28, 2, 30), "TIMEZONE": "Europe/Paris"},
    {"RELATIVE_BASE": D(2021, 10, 31, 2, 30), "TIMEZONE": "Europe/Paris", "PREFER_DATES_FROM": "future"},
    {"RELATIVE_BASE": D(2021, 10, 3, 2, 15), "TIMEZONE": "Australia/Lord_Howe", "PREFER_DATES_FROM": "past"},
]
ZONE_EDGE_STRINGS = ["1 day ago", "yesterday", "in 1 day", "tomorrow", "24 hours ago", "in 24 hours",
                     "il y a 1 mois", "1 month ago", "in 1 week", "1 week ago", "now", "today", "02:30",
                     "01:30", "2:15 am", "Sunday", "14 March 2021 02:30", "7 November 2021 01:30",
                     "1 hour ago", "in 60 minutes", "1 year ago", "March", "2021-03-14T02:30:00",
                     "1615707000", "yesterday at 02:30", "1 day ago 2:30"]


def work_edge(job):
    import dateparser
    from dateparser.date import DateData, DateDataParser

    si, ti = job
    st, s = ZONE_EDGE_SETTINGS[si], ZONE_EDGE_STRINGS[ti]
    bad = []
    for lg in (None, ["en", "fr"]):
        try:
            r = dateparser.parse(s, languages=lg, settings=dict(st))
            if r is not None and not isinstance(r, datetime.datetime):
                bad.append((s, si, "parse returned %r" % (r,)))
        except Exception as e:
            bad.append((s, si, "parse raised %s: %s [zone-edge settings %d]" % (type(e).__name__,
                                                                               str(e)[:60], si)))
        try:
            d = DateDataParser(languages=lg, settings=dict(st)).get_date_data(s)
            if not (isinstance(d, DateData) and (d.date_obj is not None or d.locale is None)):
                bad.append((s, si, "get_date_data returned %r" % (d,)))
        except Exception as e:
            bad.append((s, si, "get_date_data raised %s: %s [zone-edge settings %d]" % (
                type(e).__name__, str(e)[:60], si)))
    return 4, bad


# compound strptime directives that carry a year / a whole date without %Y, %y, %m, %d (fix aa4397e):
# valid languages and settings, so NO exception is documented for these calls
COMPOUND = [("Mon Feb 29 10:00:00 1988", "%c"), ("Sat Feb 29 00:00:00 2020", "%c"), ("02/29/88", "%x"),
            ("02/29/00", "%x"), ("12/31/99", "%x"), ("2020 09 6", "%G %V %u"), ("2016 09 1", "%G %V %u"),
            ("0004 09 7", "%G %V %u"), ("9999 52 5", "%G %V %u"), ("Fri Dec 31 23:59:59 9999", "%c"),
            ("Mon Jan  1 00:00:00 0001", "%c"), ("1988 060", "%Y %j"), ("060", "%j"), ("366", "%j"),
            ("Mon Feb 29 10:00:00 1988 +0000", "%c %z"), ("10:00:00", "%X"), ("02/29/88 10:00:00", "%x %X")]


def work_compound(job):
    import dateparser

    s, fmt = job
    bad = []
    n = 0
    for st in ({}, {"PREFER_MONTH_OF_YEAR": "last", "PREFER_DAY_OF_MONTH": "last"},
               {"PREFER_DAY_OF_MONTH": "first", "TIMEZONE": "UTC", "TO_TIMEZONE": "Asia/Tokyo"},
               {"STRICT_PARSING": True}, {"RETURN_AS_TIMEZONE_AWARE": True}):
        n += 1
        try:
            r = dateparser.parse(s, date_formats=[fmt], settings=dict(st))
            if r is not None and not isinstance(r, datetime.datetime):
                bad.append((s, fmt, "parse returned %r" % (r,)))
        except Exception as e:
            bad.append((s, fmt, "parse raised %s: %s (settings %r)" % (type(e).__name__, str(e)[:60], st)))
    return n, bad


def main():
    a = args()
    ss = strings(a.tier)
    res = pmap(work, list(enumerate(ss)), a.procs)
    edge = pmap(work_edge, [(i, j) for i in range(len(ZONE_EDGE_SETTINGS))
                            for j in range(len(ZONE_EDGE_STRINGS))], a.procs)
    failures = []
    total = 0
    for n, bad in pmap(work_compound, COMPOUND, a.procs):
        total += n
        for s_, fmt, detail in bad:
            failures.append({"id": "compound-directive:%s:%s" % (fmt, s_), "input": "parse(%r, date_formats=[%r])" % (s_, fmt),
                             "detail": detail})
    for n, bad in edge:
        total += n
        for s, si, detail in bad:
            failures.append({"id": "zone-edge:%s:%d" % (detail.split(":")[0][:40], si),
                             "input": "%r settings=%r" % (s, ZONE_EDGE_SETTINGS[si]), "detail": detail})
    for n, bad in res:
        total += n
        for s, c, detail in bad:
            failures.append({"id": "%s:%d" % (detail.split(":")[0][:40], c % len(SETTINGS)),
                             "input": "%r settings#%d languages#%d formats#%d" % (
                                 s, c % len(SETTINGS), (c // 2) % len(LANGS), (c // 3) % len(FORMATS)),
                             "detail": detail})
    seen, uniq = set(), []
    for f in failures:
        if f["id"] not in seen:
            seen.add(f["id"])
            uniq.append(f)
    emit(total, len(ss), "%d strings (test corpus + mutations, token soups, digit soups, Unicode) x 3 of "
         "%d settings x languages x formats each; distinct = strings" % (len(ss), len(SETTINGS)), uniq,
         ss[:2] + ss[-2:])


if __name__ == "__main__":
    main()
