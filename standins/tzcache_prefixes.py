"""C19 stand-in (bounded; thorough: dense): the property's own observation.
 (1) assumption check for the proof: pickle.load on a strict prefix of the real cache file raises an
     exception derived from Exception (never returns, never raises a BaseException-only class);
 (2) end to end: a copy of the package whose cache is missing / empty / cut at byte k / junk is
     imported in a fresh interpreter: exit status 0, the timezone table equals the intact one, the
     cache on disk is complete afterwards, and a second import loads it without rewriting."""
import hashlib
import io
import os
import pickle
import shutil
import subprocess
import sys
import tempfile

from standins.common import args, emit, pmap

PROBE = r'''
import sys, hashlib, os
sys.path.insert(0, sys.argv[1])
import dateparser
from dateparser import timezone_parser as T
sig = repr([(n, i["regex"].pattern, int(i["regex"].flags), i["offset"]) for n, i in T._tz_offsets])
sig += T._search_regex.pattern + str(int(T._search_regex.flags)) + T._search_regex_ignorecase.pattern + str(int(T._search_regex_ignorecase.flags))
print("SIG", hashlib.md5(sig.encode()).hexdigest(), dateparser.parse("2014-10-20 13:08:05 EST").utcoffset())
'''


def make_pkg(root):
    import dateparser
    import dateparser_data

    src = os.path.dirname(os.path.dirname(dateparser.__file__))
    shutil.copytree(os.path.join(src, "dateparser"), os.path.join(root, "dateparser"),
                    ignore=shutil.ignore_patterns("__pycache__"))
    shutil.copytree(os.path.dirname(dateparser_data.__file__), os.path.join(root, "dateparser_data"),
                    ignore=shutil.ignore_patterns("__pycache__"))
    return os.path.join(root, "dateparser", "data", "dateparser_tz_cache.pkl")


def run_probe(root):
    env = dict(os.environ)
    env.pop("PYTHONPATH", None)
    env.pop("BUILD_TZ_CACHE", None)
    r = subprocess.run([sys.executable, "-c", PROBE, root], capture_output=True, text=True, env=env,
                       timeout=120)
    sig = [l for l in r.stdout.splitlines() if l.startswith("SIG")]
    return r.returncode, (sig[0] if sig else None), (r.stderr or "")[-200:]


def e2e(job):
    state, intact_bytes, want = job
    root = tempfile.mkdtemp(prefix="tzc-")
    try:
        cache = make_pkg(root)
        if state == "missing":
            os.unlink(cache)
        elif state == "junk":
            open(cache, "wb").write(b"\x80\x05not a pickle at all" * 10)
        elif state == "other-pickle":
            open(cache, "wb").write(pickle.dumps({"not": "the cache"}))
        elif state != "intact":
            open(cache, "wb").write(intact_bytes[: int(state)])
        rc, sig, err = run_probe(root)
        if rc != 0:
            return (state, "import failed (exit %d): %s" % (rc, err.strip().splitlines()[-1:] or ""))
        if sig != want:
            return (state, "timezone table differs after import: %s vs %s" % (sig, want))
        if not os.path.exists(cache):
            return (state, "no cache file afterwards")
        try:
            with open(cache, "rb") as f:
                pickle.load(f)
        except Exception as e:
            return (state, "cache on disk still damaged afterwards: %r" % (e,))
        before = open(cache, "rb").read()
        rc, sig, err = run_probe(root)
        if rc != 0 or sig != want:
            return (state, "second import: exit %d, table %s" % (rc, sig))
        if open(cache, "rb").read() != before:
            return (state, "second import rewrote a complete cache")
        return None
    finally:
        shutil.rmtree(root, ignore_errors=True)


def load_chunk(job):
    data, ks = job
    bad = []
    for k in ks:
        try:
            pickle.load(io.BytesIO(data[:k]))
            bad.append((k, "returned a value"))
        except Exception:
            pass
        except BaseException as e:  # noqa
            bad.append((k, "raised non-Exception %s" % type(e).__name__))
    return len(ks), bad


def main():
    a = args()
    import dateparser
    from dateparser import timezone_parser as T

    data = open(str(T.CACHE_PATH), "rb").read()
    N = len(data)
    failures = []
    step = 61 if a.tier == "quick" else 7
    ks = sorted(set(list(range(0, 300)) + list(range(0, N, step)) + list(range(N - 300, N))))
    chunks = [(data, ks[i::a.procs]) for i in range(a.procs)]
    n_load = 0
    for n, bad in pmap(load_chunk, chunks, a.procs, chunk=1):
        n_load += n
        for k, what in bad:
            failures.append({"id": "pickle-assumption:%d" % k, "input": "pickle.load(first %d bytes)" % k,
                             "detail": what})
    root = tempfile.mkdtemp(prefix="tzc-ref-")
    try:
        make_pkg(root)
        rc, want, err = run_probe(root)
    finally:
        shutil.rmtree(root, ignore_errors=True)
    if rc != 0:
        failures.append({"id": "intact", "input": "intact cache", "detail": "probe failed: " + err})
    states = ["intact", "missing", "junk", "other-pickle", "0", "1", "2", "10", "100", str(N // 2),
              str(N - 1)]
    extra = 40 if a.tier == "quick" else 400
    states += [str((i * 7919 * 13) % N) for i in range(1, extra)]
    jobs = [(s, data, want) for s in states]
    for r in pmap(e2e, jobs, a.procs, chunk=1):
        if r is not None:
            failures.append({"id": "import:%s" % r[0], "input": "cache state %s (of %d bytes)" % (r[0], N),
                             "detail": r[1]})
    emit(n_load + len(states), len(states), "pickle.load on %d prefixes of the %d-byte cache; %d cache "
         "states imported end to end in a fresh interpreter (twice)" % (n_load, N, len(states)),
         failures, ["cut at byte %d" % (N // 2), "missing", "junk"])


if __name__ == "__main__":
    main()
