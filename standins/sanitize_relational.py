"""C18 stand-in (small scope, exhaustive): over all strings up to length N on an alphabet with one
representative per character class the sanitising regexes distinguish,
   sanitize_date(w(s)) == sanitize_date(s)          for every white-space rewriting w of the family,
   ascii(sanitize_date(native(s))) == sanitize_date(s)   for a non-ASCII digit script,
where w in {pad, one-sided padding, double every space, tab, newline, NBSP, mixed run, trailing colon,
trailing colon followed by white space}."""
import itertools

from standins.common import args, emit, pmap

ALPHABET = ["1", "2", "a", "u", ".", ":", ",", " ", "г", "-"]
ARABIC = str.maketrans("0123456789", "٠١٢٣٤٥٦٧٨٩")
BACK = str.maketrans("٠١٢٣٤٥٦٧٨٩", "0123456789")

REWRITES = {
    "pad": lambda s: "  " + s + " \t",
    "double": lambda s: s.replace(" ", "  "),
    "tab": lambda s: s.replace(" ", "\t"),
    "newline": lambda s: s.replace(" ", "\n"),
    "nbsp": lambda s: s.replace(" ", "\xa0"),
    "mixed": lambda s: s.replace(" ", " \xa0\t "),
    "nbsp-led-run": lambda s: s.replace(" ", "\xa0 "),
    "nbsp-nbsp": lambda s: s.replace(" ", "\xa0\xa0"),
    "nbsp-tab": lambda s: s.replace(" ", "\xa0\t"),
    "colon": lambda s: s + ":",
    "lead": lambda s: " \t" + s,
    "trail": lambda s: s + "  ",
    "trail-newline": lambda s: s + "\n",
    "colon-trail": lambda s: s + ": ",
    "lead-colon": lambda s: " " + s + ":",
    "colon-space-colon": lambda s: s + ": :",
}


def canonical(s):
    """strings of the family proper: no leading/trailing/doubled spaces, no trailing colon"""
    return s == s.strip() and "  " not in s and not s.endswith(":") and s != ""


def chunk(first):
    from dateparser.date import sanitize_date

    n, N = first
    bad = []
    count = 0
    for rest in itertools.product(ALPHABET, repeat=N - 1):
        s = n + "".join(rest)
        if not canonical(s):
            continue
        base = sanitize_date(s)
        count += 1
        for name, w in REWRITES.items():
            if sanitize_date(w(s)) != base:
                bad.append(("ws:" + name, s, repr(w(s)), repr(sanitize_date(w(s))), repr(base)))
        nat = s.translate(ARABIC)
        if sanitize_date(nat).translate(BACK) != base:
            bad.append(("digits", s, repr(nat), repr(sanitize_date(nat)), repr(base)))
    return count, bad[:20], len(bad)


def main():
    a = args()
    maxlen = 6 if a.tier == "quick" else 7
    jobs = [(c, N) for N in range(1, maxlen + 1) for c in ALPHABET]
    res = pmap(chunk, jobs, a.procs, chunk=1)
    total = sum(r[0] for r in res)
    failures = []
    seen = set()
    for _, bad, _n in res:
        for kind, s, rewritten, got, want in bad:
            if kind in seen:
                continue
            seen.add(kind)
            failures.append({"id": kind, "input": "%r rewritten as %s" % (s, rewritten),
                             "detail": "sanitize_date gives %s, the unrewritten string gives %s" % (
                                 got, want)})
    emit(total * (len(REWRITES) + 1), total,
         "every canonical string of length <= %d over %r x %d rewritings; distinct = strings" % (
             maxlen, ALPHABET, len(REWRITES) + 1), failures, ["1.2.1. u 2", "a. 1"], exhaustive=True)


if __name__ == "__main__":
    main()
