"""C15 stand-in: the Latinising front end (`to_latin`: Persian names, digits, spelled-out days) and the
end-to-end result, evaluated on the real library against the reference converters.
quick: a year grid (incl. leap years) x every month x days {1, 2, 15, last} x every listed spelling;
thorough: every valid date of Jalali 1200..1500 and Hijri 1343..1500 (numeric), names on the grid."""
import datetime

from standins.common import args, emit, pmap

PD = "۰۱۲۳۴۵۶۷۸۹"


def to_persian_digits(s):
    return "".join(PD[int(c)] if c.isdigit() else c for c in s)


def jalali_items(tier):
    from convertdate import persian

    from dateparser.calendars.jalali_parser import jalali_parser as JP

    years = range(1200, 1501) if tier == "thorough" else [1200, 1299, 1348, 1370, 1375, 1387, 1399,
                                                          1403, 1404, 1500]
    months = list(JP._months.items())
    items = []
    for y in years:
        for mi in range(1, 13):
            L = persian.month_length(y, mi)
            days = range(1, L + 1) if tier == "thorough" else sorted(x for x in {1, 2, 15, 29, L} if x <= L)
            for d in days:
                items.append(("jalali", "%04d/%02d/%02d" % (y, mi, d), y, mi, d, None))
                if tier != "thorough" or y % 25 == 0:
                    items.append(("jalali", to_persian_digits("%04d/%02d/%02d" % (y, mi, d)), y, mi,
                                  d, None))
                    items.append(("jalali", "%04d-%02d-%02d 19:47" % (y, mi, d), y, mi, d, (19, 47)))
                    if d in (1, L):
                        pm0 = months[mi - 1][1][2][0]
                        # spelled-out clock times (with and without seconds), Latin and Persian digits;
                        # numeric dates with one-digit month / day
                        t1 = "%d %s %d \u0633\u0627\u0639\u062a 11 \u0648 01 \u062f\u0642\u06cc\u0642\u0647 \u0648 47 \u062b\u0627\u0646\u06cc\u0647" % (d, pm0, y)
                        t2 = "%d %s %d \u0633\u0627\u0639\u062a 19:47" % (d, pm0, y)
                        for t, clk in ((t1, (11, 1, 47)), (t2, (19, 47))):
                            items.append(("jalali", t, y, mi, d, clk))
                            items.append(("jalali", to_persian_digits(t), y, mi, d, clk))
                        items.append(("jalali", "%d/%d/%d" % (y, mi, d), y, mi, d, None))
                        items.append(("jalali", to_persian_digits("%d/%d/%d 9:05" % (y, mi, d)), y, mi, d, (9, 5)))
                    for pers in months[mi - 1][1][2]:
                        items.append(("jalali", "%d %s %d" % (d, pers, y), y, mi, d, None))
                        items.append(("jalali", to_persian_digits("%d %s %d" % (d, pers, y)), y, mi,
                                      d, None))
                    if d <= 31 and y in (1375, 1399, 1400) or (tier != "thorough" and y == 1387):
                        for word in JP._number_letters[d]:
                            items.append(("jalali", "%s %s %d" % (word, months[mi - 1][1][2][0], y),
                                          y, mi, d, None))
    return items


def hijri_items(tier):
    from hijridate import Hijri

    years = range(1343, 1501) if tier == "thorough" else [1343, 1389, 1400, 1433, 1441, 1445, 1500]
    items = []
    for y in years:
        for m in range(1, 13):
            # the statement quantifies over days 1..29/30; the reference table's three 31-day months
            # (1345-05, 1348-11, 1349-11) are outside it (day 31 is refused by the library: observed)
            L = min(30, Hijri(y, m, 1).month_length())
            for d in (range(1, L + 1) if tier == "thorough" else sorted(x for x in {1, 2, 15, 29, L} if x <= L)):
                items.append(("hijri", "%04d-%02d-%02d" % (y, m, d), y, m, d, None))
                items.append(("hijri", "%04d/%02d/%02d 09:05" % (y, m, d), y, m, d, (9, 5)))
                if d in (1, L):
                    items.append(("hijri", "%d-%d-%d" % (y, m, d), y, m, d, None))
                    items.append(("hijri", "%d/%d/%d 09:40" % (y, m, d), y, m, d, (9, 40)))
    return items


def work(item):
    which, s, y, m, d, clock = item
    if which == "jalali":
        from convertdate import persian

        from dateparser.calendars.jalali import JalaliCalendar as C

        g = persian.to_gregorian(y, m, d)
    else:
        from hijridate import Hijri

        from dateparser.calendars.hijri import HijriCalendar as C

        g = Hijri(y, m, d).to_gregorian().datetuple()
    want = datetime.datetime(*g, *(clock or (0, 0)))
    try:
        r = C(s).get_date()
    except Exception as e:
        return (item, "raised %r" % (e,))
    got = None if r is None else r.date_obj
    if got != want:
        return (item, "got %r, reference conversion gives %r" % (got, want))
    return None


def main():
    a = args()
    items = jalali_items(a.tier) + hijri_items(a.tier)
    res = pmap(work, items, a.procs)
    # both calendars on the same (year, month, day) in ONE process, alternating: a conversion must
    # not depend on what the other calendar converted before (the parsers share a base class)
    for (y, m, d) in [(1400, 5, 10), (1394, 6, 26), (1432, 9, 14), (1500, 1, 1), (1389, 1, 1)]:
        for which in ("jalali", "hijri", "jalali", "hijri"):
            sep = "/" if which == "jalali" else "-"
            res.append(work((which, "%04d%s%02d%s%02d" % (y, sep, m, sep, d), y, m, d, None)))
    failures = []
    for r in res:
        if r is not None:
            (which, s, y, m, d, clock), detail = r
            failures.append({"id": "%s:%s" % (which, s), "input": s, "detail": detail})
    emit(len(items), len({i[1] for i in items}),
         "calendar strings: (year grid x month x day set x spelling); distinct = distinct strings",
         failures, [i[1] for i in items[:2]] + [i[1] for i in items[-2:]],
         exhaustive=(a.tier == "thorough"))


if __name__ == "__main__":
    main()
