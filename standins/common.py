"""Shared helpers for stand-ins: bounded / exhaustive run-time evaluation of assumed contracts on the
REAL, uninstrumented library (PYTHONPATH=/repo).  A stand-in prints one JSON object on its last
stdout line: evaluations, distinct_nontrivial, rule, exhaustive, samples, failures[{id,input,detail}].
Stand-ins are deterministic (PYTHONHASHSEED=0, no randomness beyond VERIF_SEED-independent grids)."""
import argparse
import json
import multiprocessing as mp
import os
import sys


def args():
    ap = argparse.ArgumentParser()
    ap.add_argument("--tier", default=os.environ.get("VERIF_TIER", "quick"))
    ap.add_argument("--seed", type=int, default=0)
    ap.add_argument("--procs", type=int, default=int(os.environ.get("VERIF_JOBS", "16")))
    return ap.parse_known_args()[0]


def pmap(func, items, procs=16, chunk=None):
    items = list(items)
    if procs <= 1 or len(items) < 4:
        return [func(x) for x in items]
    ctx = mp.get_context("fork")
    with ctx.Pool(min(procs, len(items))) as pool:
        return pool.map(func, items, chunksize=chunk or max(1, len(items) // (procs * 8)))


def emit(evaluations, distinct, rule, failures, samples, exhaustive=False, extra=None):
    out = {"evaluations": int(evaluations), "distinct_nontrivial": int(distinct), "rule": rule,
           "exhaustive": bool(exhaustive), "samples": samples[:5], "failures": failures[:400],
           "failures_total": len(failures)}
    out.update(extra or {})
    sys.stdout.write("\n" + json.dumps(out, ensure_ascii=False, default=repr) + "\n")
