"""C18 stand-in (bounded, end to end): every string of the repository's own test corpus, rewritten by
each white-space rewriting of the family and with its digits in each of several Unicode digit
scripts, parses to the same (datetime, period) as the original (autodetected language, fixed
reference time)."""
import datetime

from standins.common import args, emit, pmap
from standins.corpus import test_strings

BASE = datetime.datetime(2020, 5, 15, 12, 30)
SCRIPTS = {"arabic-indic": 0x0660, "persian": 0x06F0, "devanagari": 0x0966, "bengali": 0x09E6,
           "thai": 0x0E50, "tibetan": 0x0F20, "myanmar": 0x1040, "fullwidth": 0xFF10}
WS = {
    "pad": lambda s: "  " + s + " \t",
    "double": lambda s: s.replace(" ", "  "),
    "tab": lambda s: s.replace(" ", "\t"),
    "newline": lambda s: s.replace(" ", "\n"),
    "nbsp": lambda s: s.replace(" ", "\xa0"),
    "mixed": lambda s: s.replace(" ", " \xa0\t "),
    "nbsp-led-run": lambda s: s.replace(" ", "\xa0 "),
    "nbsp-nbsp": lambda s: s.replace(" ", "\xa0\xa0"),
    "nbsp-tab": lambda s: s.replace(" ", "\xa0\t"),
    "colon": lambda s: s + ":",
    # one-sided white space, and white space after the trailing colon (RE_TRIM_SPACES used to
    # trim only when both sides had some: fix 52b4365)
    "lead": lambda s: " \t" + s,
    "trail": lambda s: s + "  ",
    "trail-newline": lambda s: s + "\n",
    "colon-trail": lambda s: s + ": ",
    "colon-newline": lambda s: s + ":\n",
    "lead-colon": lambda s: " " + s + ":",
    "nbsp-trail": lambda s: s + "\xa0",
    "colon-space-colon": lambda s: s + ": :",
}


EXTRA = ["1484823450", "1484823450123", "1484823450123456", "2014-10-20 13:08:05", "2014-10-20T13:08",
         "20141020", "3 days ago", "in 15 minutes", "10:15 pm", "12.10.2015", "15 Nov 2011 14:05:59"]


def parse(s):
    from dateparser.date import DateDataParser

    global _P
    try:
        _P
    except NameError:
        _P = DateDataParser(settings={"RELATIVE_BASE": BASE})
    try:
        d = _P.get_date_data(s)
        return (d.date_obj, d.period)
    except Exception as e:
        return ("raised", type(e).__name__)


def work(s):
    base = parse(s)
    bad = []
    n = 0
    canonical = s == s.strip() and "  " not in s and not s.rstrip().endswith(":")
    if canonical:
        for name, w in WS.items():
            if name in ("double", "tab", "newline", "nbsp", "mixed", "nbsp-led-run", "nbsp-nbsp",
                        "nbsp-tab") and " " not in s:
                continue
            n += 1
            r = parse(w(s))
            if r != base:
                bad.append(("ws:" + name, s, w(s), repr(r), repr(base)))
    if any(c in "0123456789" for c in s):
        for name, zero in SCRIPTS.items():
            t = s.translate({ord("0") + i: zero + i for i in range(10)})
            n += 1
            r = parse(t)
            if r != base:
                bad.append(("script:" + name, s, t, repr(r), repr(base)))
    return n, bad


def main():
    a = args()
    corpus = test_strings()
    if a.tier == "quick":
        corpus = corpus[::3]
    # every parser of the chain sees digits: epoch numbers (timestamp parser, which reads the string
    # before the locale's numeral translation), counts, compact and ISO forms
    corpus = EXTRA + [c for c in corpus if c not in EXTRA]
    res = pmap(work, corpus, a.procs)
    failures = []
    total = 0
    for n, bad in res:
        total += n
        for kind, s, t, got, want in bad:
            failures.append({"id": "%s:%s" % (kind, s), "input": t,
                             "detail": "parses to %s, the original %r parses to %s" % (got, s, want)})
    emit(total + len(corpus), len(corpus),
         "test-corpus strings (%d) x white-space rewritings x %d digit scripts; distinct = strings"
         % (len(corpus), len(SCRIPTS)), failures, corpus[:3])


if __name__ == "__main__":
    main()
