"""Vocabulary helpers shared by the C05 / C06 / C14 sweeps: per-locale word lists and the
"single meaning" rule, computed from the data exactly as the property states it."""
import re

MONTHS = ["january", "february", "march", "april", "may", "june", "july", "august", "september",
          "october", "november", "december"]
WEEKDAYS = ["monday", "tuesday", "wednesday", "thursday", "friday", "saturday", "sunday"]
UNITS = ["decade", "year", "month", "week", "day", "hour", "minute", "second"]
OTHER = ["ago", "in", "am", "pm"]


def all_codes():
    from dateparser.data import language_locale_dict, language_order

    out = []
    for lang in language_order:
        out.append((lang, "language"))
    for lang in language_order:
        for loc in language_locale_dict.get(lang, []):
            out.append((loc, "locale"))
    return out


def _overlay(base, extra):
    """spec of the regional overlay: lists are extended, dicts merged recursively, scalars replaced"""
    out = dict(base)
    for k, v in extra.items():
        if k in out and isinstance(out[k], list) and isinstance(v, list):
            out[k] = out[k] + v
        elif k in out and isinstance(out[k], dict) and isinstance(v, dict):
            out[k] = _overlay(out[k], v)
        else:
            out[k] = v
    return out


_fresh = {}


def _fresh_language_data(lang):
    """the data module executed from its file into a private namespace (never the imported module
    object, which the library may have modified in this process)"""
    if lang not in _fresh:
        import os

        import dateparser

        path = os.path.join(os.path.dirname(dateparser.__file__), "data", "date_translation_data",
                            lang + ".py")
        ns = {}
        with open(path, encoding="utf-8") as f:
            exec(compile(f.read(), path, "exec"), ns)
        _fresh[lang] = ns["info"]
    return _fresh[lang]


def info_of(code):
    """the vocabulary the data modules DEFINE for a language or locale, computed here from the data
    (a fresh deep copy), independently of the library's loader and of whatever was loaded before"""
    import copy
    import re
    from importlib import import_module

    lang = re.split(r"-(?=[A-Z0-9]+$)", code)[0]
    info = copy.deepcopy(_fresh_language_data(lang))
    specific = info.pop("locale_specific", {})
    if code != lang:
        info = _overlay(info, specific.get(code, {}))
    return info


def meanings(info):
    """lower-cased word -> set of meanings it is listed under"""
    m = {}

    def add(word, meaning):
        m.setdefault(word.lower(), set()).add(meaning)

    for key in MONTHS + WEEKDAYS + UNITS + OTHER:
        for w in info.get(key, []) or []:
            add(w, key)
    for key in ("skip", "pertain"):
        for w in info.get(key, []) or []:
            add(w, "skip")
    for canon, words in (info.get("relative-type") or {}).items():
        for w in words:
            add(w, "rel:" + canon)
    return m


def single_meaning_names(info, keys):
    m = meanings(info)
    out = []
    seen = set()
    for key in keys:
        for w in info.get(key, []) or []:
            lw = w.lower()
            if lw in seen:
                continue
            seen.add(lw)
            if m.get(lw) == {key} and not any(ch.isdigit() for ch in w):
                out.append((key, w))
    return out


def instantiate_counted(pattern, n):
    """a phrase matched by a counted pattern with the count n written in, or None"""
    s = pattern
    num = str(n)
    s = re.sub(r"\(\\d\+\[\.,\]\?\\d\*\)|\(\\d\+\)|\(\?P<n>\\d\+\)", num, s)
    for a, b in ((r"\s+", " "), (r"\s*", " "), (r"\s?", " "), (r"\s", " "), (r"\.", "."),
                 ("(?:", "(")):
        s = s.replace(a, b)
    s = re.sub(r"\(([^()|]*)\|[^()]*\)", r"\1", s)
    s = re.sub(r"\(([^()]*)\)\?", r"\1", s)
    s = re.sub(r"([^\\])\?", r"\1", s)
    s = s.replace("(", "").replace(")", "").replace("^", "").replace("$", "")
    s = re.sub(r" +", " ", s).strip()
    try:
        if re.fullmatch(pattern, s, re.I | re.U):
            return s
    except re.error:
        pass
    return None
