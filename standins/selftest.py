"""Cross-checks of the engine's assumed contracts against the real implementations (stand-in for the
trusted base; registered under C08/C04/C01/C15 and runnable by hand):
  calendar   ordinal / weekday / days-in-month / validity messages vs CPython (sample; thorough: all
             3,652,059 dates), closed-form day shifts vs date arithmetic
  regex      symbolic matcher vs the real `regex` / `re` engines on every pattern constant the kernels
             use (match/search/fullmatch/findall/split/sub on generated strings)
  reldelta   SRelDelta vs dateutil.relativedelta on a grid
  converters month-length facts and valid-Gregorian-result assumption of the calendar converters
Runs on concrete values only (no path needed)."""
import argparse
import datetime
import random

from standins.common import emit, pmap


def cal_chunk(job):
    from pyvc import cal

    lo, hi = job
    bad = []
    d = datetime.date.fromordinal(lo)
    one = datetime.timedelta(days=1)
    n = 0
    for o in range(lo, hi):
        y, m, dd = d.year, d.month, d.day
        n += 1
        if cal.ordinal(y, m, dd) != o or cal.weekday_of(y, m, dd) != d.weekday():
            bad.append(("ordinal/weekday", str(d)))
        import calendar

        if cal.dim(y, m) != calendar.monthrange(y, m)[1] or bool(cal.isleap(y)) != calendar.isleap(y):
            bad.append(("dim/isleap", str(d)))
        for k in (-28, -7, -1, 1, 6, 7, 28):
            try:
                want = d + datetime.timedelta(days=k)
                want = (want.year, want.month, want.day)
            except OverflowError:
                want = "overflow"
            try:
                got = cal._small_day_shift(y, m, dd, k)
            except OverflowError:
                got = "overflow"
            if got != want:
                bad.append(("small_day_shift %d" % k, str(d)))
        if o < hi - 1:
            d = d + one
    return n, bad[:5]


def calendar_part(tier, procs):
    if tier == "thorough":
        step = 30000
        jobs = [(a, min(a + step, 3652060)) for a in range(1, 3652060, step)]
    else:
        # every month end of a 400-year cycle + range ends + a deterministic sample
        starts = [1, 3652059 - 400, 693595, 730000]
        jobs = [(s, s + 400) for s in starts]
        jobs += [(s, s + 40) for s in range(1000, 3652000, 36500)]
    res = pmap(cal_chunk, jobs, procs, chunk=1)
    fails = []
    n = 0
    for k, bad in res:
        n += k
        for what, d in bad:
            fails.append({"id": "calendar:%s" % what, "input": d, "detail": "theory != CPython"})
    # constructor messages
    from pyvc import cal

    for args_ in [(0, 1, 1), (10000, 1, 1), (2021, 0, 1), (2021, 13, 1), (2021, 2, 29), (2021, 4, 31),
                  (2021, 1, 0), (2021, 1, 32)]:
        try:
            datetime.datetime(*args_)
            real = None
        except ValueError as e:
            real = str(e)
        try:
            cal._validate_date(*args_)
            mine = None
        except ValueError as e:
            mine = str(e)
        key = lambda s: None if s is None else ("day" if "day" in s else "month" if "month" in s else "year")
        n += 1
        if key(real) != key(mine) or ((real or "").startswith("day is out of range") != (mine or "").startswith("day is out of range")):
            fails.append({"id": "calendar:message", "input": repr(args_), "detail": "%r vs %r" % (real, mine)})
    return n, fails


def regex_part(tier):
    import re

    import regex

    import dateparser.date as D
    import dateparser.freshness_date_parser as F
    import dateparser.parser as Pm
    import dateparser.timezone_parser as T
    import dateparser.utils.strptime as S
    from pyvc import rx

    pats = [getattr(D, n) for n in dir(D) if n.startswith("RE_")] + [
        Pm.NSP_COMPATIBLE, Pm.MERIDIAN, Pm.MICROSECOND, Pm.EIGHT_DIGIT, Pm.HOUR_MINUTE_REGEX, F.PATTERN,
        S.TIME_MATCHER, S.MS_SEARCHER]
    pats += [regex.compile(p) for p in [r"\s+", r"\W", r"\b(?:ago|in)\b", r"\bin\b",
                                        r"[{}()<>\[\]]+", r"(\d+)", r"\bfuture\b",
                                        r"decade|year|month|week|day|hour|minute|second|ago|in|\d+|:|[ap]m"]]
    import _strptime

    tre = _strptime.TimeRE()
    for f in ["%H:%M:%S", "%I:%M:%S %p", "%H:%M", "%I:%M %p", "%I %p", "%H:%M:%S.%f", "%d", "%m", "%Y",
              "%y", "%B", "%b", "%A", "%a", "%Y%m%d", "%d%m%y", "%Y-%m-%d %H:%M:%S.%f"]:
        pats.append(tre.compile(f))
    pats += [i["regex"] for n, i in T._tz_offsets[::(11 if tier == "thorough" else 37)]]
    pats.append(T._search_regex_ignorecase)
    rnd = random.Random(1)
    alpha = "0123456789:. -/apmAPM,+tuxyin\n"
    words = ["12", "2013", "ago", "in", "pm", "am", "10:30", "day", "2 days", "monday", "nov", "UTC",
             "+0100", "-1000", "05.11.", "\xa0", "GMT+3", "1234567890123", "EST", "utc+5:45"]

    def rs():
        if rnd.random() < 0.5:
            return "".join(rnd.choice(alpha) for _ in range(rnd.randint(0, 12)))
        return "".join(rnd.choice(words + [" ", ":", ".", " "]) for _ in range(rnd.randint(1, 5)))

    def norm(m):
        return None if m is None else (m.span(), m.groups(), m.groupdict())

    fails = []
    n = 0
    per = 30 if tier == "quick" else 600
    for p in pats:
        for _ in range(per):
            s = rs()
            for name in ("match", "search", "fullmatch"):
                n += 1
                if norm(getattr(p, name)(s)) != norm(getattr(rx, name)(p, s)):
                    fails.append({"id": "regex:%s" % p.pattern[:40], "input": repr(s), "detail": name})
            n += 3
            if p.findall(s) != rx.findall(p, s) or p.split(s) != rx.split(p, s) or \
                    p.sub("#", s) != rx.sub(p, "#", s):
                fails.append({"id": "regex:%s" % p.pattern[:40], "input": repr(s),
                              "detail": "findall/split/sub"})
    return n, fails


def reldelta_part(tier):
    from dateutil.relativedelta import relativedelta

    from pyvc.instrument import SRelDelta

    fails = []
    n = 0
    bases = [datetime.datetime(y, m, d, 13, 45, 10, 5) for y in (1800, 1999, 2000, 2020, 2199)
             for m, d in ((1, 31), (2, 28), (3, 31), (12, 31), (6, 15))] + [
        datetime.datetime(2020, 2, 29, 0, 0), datetime.datetime(9990, 12, 31, 23, 59)]
    for b in bases:
        for unit in ("years", "months", "weeks", "days", "hours", "minutes", "seconds"):
            for k in (0, 1, 2, 11, 12, 13, 40, 99, 365, 5000):
                for sign in (1, -1):
                    n += 1
                    kw = {unit: k}
                    try:
                        want = b + relativedelta(**kw) if sign > 0 else b - relativedelta(**kw)
                    except (ValueError, OverflowError) as e:
                        want = type(e).__name__
                    try:
                        got = b + SRelDelta(**kw) if sign > 0 else b - SRelDelta(**kw)
                    except (ValueError, OverflowError) as e:
                        got = type(e).__name__
                    if got != want:
                        fails.append({"id": "reldelta:%s" % unit, "input": "%s %+d %s" % (b, sign * k, unit),
                                      "detail": "model %r, dateutil %r" % (got, want)})
        for kw in ({"years": 1, "months": 14, "days": 3}, {"months": 25, "hours": 30},
                   {"years": 10, "weeks": 2, "seconds": 86401}):
            for sign in (1, -1):
                n += 1
                try:
                    want = b + relativedelta(**kw) if sign > 0 else b - relativedelta(**kw)
                except (ValueError, OverflowError) as e:
                    want = type(e).__name__
                try:
                    got = b + SRelDelta(**kw) if sign > 0 else b - SRelDelta(**kw)
                except (ValueError, OverflowError) as e:
                    got = type(e).__name__
                if got != want:
                    fails.append({"id": "reldelta:combo", "input": "%s %s %r" % (b, sign, kw),
                                  "detail": "model %r, dateutil %r" % (got, want)})
    return n, fails


def converters_part(tier):
    from convertdate import persian
    from hijridate import Hijri

    fails = []
    n = 0
    for y in range(1200, 1501, 1 if tier == "thorough" else 7):
        for m in range(1, 13):
            n += 1
            L = persian.month_length(y, m)
            want = 31 if m <= 6 else (30 if m <= 11 else None)
            if (want is not None and L != want) or (want is None and L not in (29, 30)):
                fails.append({"id": "converter:persian-length", "input": "%d/%d" % (y, m), "detail": str(L)})
            g = persian.to_gregorian(y, m, L)
            try:
                datetime.date(*g)
            except ValueError:
                fails.append({"id": "converter:persian-valid", "input": "%d/%d/%d" % (y, m, L), "detail": str(g)})
    for y in range(1343, 1501, 1 if tier == "thorough" else 5):
        for m in range(1, 13):
            n += 1
            L = Hijri(y, m, 1).month_length()
            if L not in (28, 29, 30, 31):
                fails.append({"id": "converter:hijri-length", "input": "%d-%d" % (y, m), "detail": str(L)})
            g = Hijri(y, m, L).to_gregorian().datetuple()
            try:
                datetime.date(*g)
            except ValueError:
                fails.append({"id": "converter:hijri-valid", "input": "%d-%d-%d" % (y, m, L), "detail": str(g)})
    return n, fails


def main():
    ap = argparse.ArgumentParser()
    ap.add_argument("--tier", default="quick")
    ap.add_argument("--seed", type=int, default=0)
    ap.add_argument("--procs", type=int, default=16)
    ap.add_argument("--part", default="all")
    a = ap.parse_args()
    total = 0
    fails = []
    parts = ["calendar", "regex", "reldelta", "converters"] if a.part == "all" else [a.part]
    for p in parts:
        if p == "calendar":
            n, f = calendar_part(a.tier, a.procs)
        elif p == "regex":
            n, f = regex_part(a.tier)
        elif p == "reldelta":
            n, f = reldelta_part(a.tier)
        else:
            n, f = converters_part(a.tier)
        total += n
        fails += f
    seen, uniq = set(), []
    for f in fails:
        if f["id"] not in seen:
            seen.add(f["id"])
            uniq.append(f)
    emit(total, max(2, total // 10), "cross-check of the assumed contracts (%s) against the real "
         "implementations" % ", ".join(parts), uniq, ["ordinal(2021-08-31)", "HOUR_MINUTE_REGEX on '24:00'"],
         exhaustive=(a.tier == "thorough"))


if __name__ == "__main__":
    main()
