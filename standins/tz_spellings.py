"""C11 stand-in (exhaustive over the table): every supported UTC offset in every accepted spelling and
every abbreviation (upper and lower case), appended to fixed date-time bodies, with English and with
autodetection: the result is aware, its offset is one the table lists for that name, its wall clock is
the written one, and it survives pickle / copy / deepcopy.  Also: the loaded table equals the table
rebuilt from timezones.py (assumption shared with C19)."""
import copy
import datetime
import pickle
import re

from standins.common import args, emit, pmap

BODIES = [("2014-10-20 13:08:05", datetime.datetime(2014, 10, 20, 13, 8, 5)),
          ("Fri Sep 23 2016 10:34:51", datetime.datetime(2016, 9, 23, 10, 34, 51)),
          ("20 October 2014 13:08", datetime.datetime(2014, 10, 20, 13, 8))]


def offset_spellings(name):
    # name like UTC\+05:30
    m = re.fullmatch(r"UTC\\([+-])(\d\d):(\d\d)", name)
    sign, hh, mm = m.groups()
    sp = [sign + hh + mm, sign + hh + ":" + mm, "UTC" + sign + hh + ":" + mm,
          "GMT" + sign + hh + ":" + mm, "UTC" + sign + hh + mm, "GMT" + sign + hh + mm]
    if hh[0] == "0":
        sp += ["UTC" + sign + hh[1] + ":" + mm, "GMT" + sign + hh[1] + ":" + mm]
    if mm == "00":
        sp += ["UTC" + sign + hh, "GMT" + sign + hh]
        if hh[0] == "0":
            sp += ["UTC" + sign + hh[1], "GMT" + sign + hh[1]]
    return sp


def work(item):
    import dateparser

    kind, name, spelling, offsets, body_i, mode = item
    body, wall = BODIES[body_i]
    s = body + " " + spelling
    kw = {"languages": ["en"]} if mode == "en" else {}
    try:
        r = dateparser.parse(s, **kw)
    except Exception as e:
        return (item, "raised %r" % (e,))
    if r is None or r.tzinfo is None:
        return (item, "not an aware datetime: %r" % (r,))
    if r.utcoffset() not in offsets:
        return (item, "offset %s not among the listed %s" % (r.utcoffset(), sorted(map(str, offsets))))
    if r.replace(tzinfo=None) != wall:
        return (item, "wall clock %s != written %s" % (r.replace(tzinfo=None), wall))
    for how, clone in (("pickle", pickle.loads(pickle.dumps(r))), ("copy", copy.copy(r)),
                       ("deepcopy", copy.deepcopy(r))):
        if clone != r or clone.utcoffset() != r.utcoffset() or \
                clone.replace(tzinfo=None) != r.replace(tzinfo=None):
            return (item, "%s round trip changed the result: %r" % (how, clone))
    return None


def main():
    a = args()
    from dateparser import timezone_parser as TP
    from dateparser.timezones import timezone_info_list

    failures = []
    # the table in use == the table the sources define
    parts = []
    rebuilt = list(TP.build_tz_offsets(parts))
    sig = lambda t: [(n, i["regex"].pattern, int(i["regex"].flags), i["offset"]) for n, i in t]
    if sig(rebuilt) != sig(TP._tz_offsets):
        failures.append({"id": "table-differs-from-sources", "input": "dateparser_tz_cache.pkl",
                         "detail": "loaded table != build_tz_offsets(timezone_info_list)"})
    listed = {}
    for info in timezone_info_list:
        for name, secs in info["timezones"]:
            listed.setdefault(name, set()).add(datetime.timedelta(seconds=secs))
    items = []
    for gi, info in enumerate(timezone_info_list):
        for name, secs in info["timezones"]:
            if gi == 0:
                # the offset group: a spelling may be shared by -00:00 / +00:00 (both 0)
                for sp in offset_spellings(name):
                    for b in range(len(BODIES)):
                        for mode in ("en", "auto"):
                            items.append(("offset", name, sp, frozenset(listed[name]), b, mode))
            else:
                plain = name.replace("\\", "")
                for sp in (plain, plain.lower()):
                    for b in ((0, 1, 2) if a.tier == "thorough" else (0,)):
                        for mode in ("en", "auto"):
                            items.append(("abbr", name, sp, frozenset(listed[name]), b, mode))
    # a zone written before a parenthesised abbreviation
    for sp, off in (("GMT+0800 (CST)", 8), ("GMT-0400 (EDT)", -4), ("UTC+0200 (CEST)", 2)):
        for mode in ("en", "auto"):
            items.append(("paren", sp, sp, frozenset([datetime.timedelta(hours=off)]), 1, mode))
    res = pmap(work, items, a.procs)
    for r in res:
        if r is not None:
            (kind, name, sp, _, b, mode), detail = r
            failures.append({"id": "%s:%s:%s" % (kind, sp, mode), "input": BODIES[b][0] + " " + sp,
                             "detail": detail})
    # naive by default when no zone is written
    import dateparser

    for body, wall in BODIES:
        for kw in ({"languages": ["en"]}, {}):
            r = dateparser.parse(body, **kw)
            if r is None or r.tzinfo is not None or r != wall:
                failures.append({"id": "naive-default:%s" % body, "input": body, "detail": repr(r)})
    # dedupe by id
    seen, uniq = set(), []
    for f in failures:
        if f["id"] not in seen:
            seen.add(f["id"])
            uniq.append(f)
    emit(len(items) + 6, len({(i[1], i[2]) for i in items}),
         "every (table name x spelling x body x {en, autodetect}); distinct = (name, spelling) pairs",
         uniq, [i[2] for i in items[:3]] + [items[-1][2]], exhaustive=True)


if __name__ == "__main__":
    main()
