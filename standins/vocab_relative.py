"""C06 stand-in (exhaustive over the vocabulary): for every language and regional locale, every
single-meaning fixed relative phrase and every counted pattern (counts 0,1,2,3,11,45,120) parses, with
that language selected and the same reference time, to the same datetime as the canonical English
expression it is listed under."""
import datetime
import re

from standins.common import args, emit, pmap
from standins.vocab import all_codes, info_of, instantiate_counted, meanings

BASES = [datetime.datetime(2021, 3, 31, 13, 45, 10), datetime.datetime(2020, 2, 29, 0, 0, 5)]
COUNTS = [0, 1, 2, 3, 11, 45, 120]


def work(job):
    from dateparser.date import DateDataParser

    code, kind, tier = job
    info = info_of(code)
    kw = {"languages": [code]} if kind == "language" else {"locales": [code]}
    m = meanings(info)
    bad = []
    n = distinct = 0
    bases = BASES if tier != "quick" else BASES[:1]
    for b in bases:
        st = {"RELATIVE_BASE": b}
        en = DateDataParser(languages=["en"], settings=st)
        loc = DateDataParser(settings=st, **kw)
        canon_cache = {}

        def canon_result(c):
            if c not in canon_cache:
                try:
                    canon_cache[c] = en.get_date_data(c).date_obj
                except Exception as e:
                    canon_cache[c] = "raised %s" % type(e).__name__
            return canon_cache[c]

        for canon, words in (info.get("relative-type") or {}).items():
            for w in words:
                if m.get(w.lower()) != {"rel:" + canon} or any(ch.isdigit() for ch in w):
                    continue
                n += 1
                distinct += 1
                want = canon_result(canon)
                try:
                    got = loc.get_date_data(w).date_obj
                except Exception as e:
                    got = "raised %s" % type(e).__name__
                if got != want:
                    bad.append(("fixed", code, w, canon, repr(got), repr(want)))
        pats = info.get("relative-type-regex") or {}
        allp = [(c, p) for c, ps in pats.items() for p in ps]
        for canon, p in allp:
            ok_n = 0
            for cnt in COUNTS:
                phrase = instantiate_counted(p, cnt)
                if phrase is None:
                    break
                # single meaning: the phrase matches patterns of one canonical form only
                hits = set()
                for c2, p2 in allp:
                    try:
                        if re.fullmatch(p2, phrase, re.I | re.U):
                            hits.add(c2)
                    except re.error:
                        pass
                if hits != {canon}:
                    continue
                cstr = canon.replace("\\1", str(cnt))
                n += 1
                ok_n += 1
                want = canon_result(cstr)
                try:
                    got = loc.get_date_data(phrase).date_obj
                except Exception as e:
                    got = "raised %s" % type(e).__name__
                if got != want:
                    bad.append(("counted", code, phrase, cstr, repr(got), repr(want)))
                    break
            distinct += 1 if ok_n else 0
    return n, distinct, bad


def work_group(group):
    n = d = 0
    bad = []
    for job in group:
        a_, b_, c_ = work(job)
        n += a_
        d += b_
        bad += c_
    return n, d, bad


def main():
    a = args()
    by_lang = {}
    for c, k in all_codes():
        by_lang.setdefault(c.split("-")[0], []).append((c, k, a.tier))
    # the language first, then its regional locales, all in one process (shared regex caches)
    groups = [[j for j in jobs if j[1] == "language"] + [j for j in jobs if j[1] == "locale"]
              for jobs in by_lang.values()]
    res = pmap(work_group, groups, a.procs, chunk=1)
    jobs = [j for g in groups for j in g]
    failures = []
    total = distinct = 0
    for n, d, bad in res:
        total += n
        distinct += d
        for kind, code, phrase, canon, got, want in bad:
            failures.append({"id": "%s:%s:%s" % (kind, code, phrase),
                             "input": "DateDataParser(%s).get_date_data(%r) vs English %r" % (
                                 code, phrase, canon),
                             "detail": "got %s, the canonical expression gives %s" % (got, want)})
    seen, uniq = set(), []
    for f in failures:
        if f["id"] not in seen:
            seen.add(f["id"])
            uniq.append(f)
    emit(total, distinct, "every single-meaning relative phrase / counted pattern of %d languages and "
         "locales; counts %s; distinct = (locale, phrase or pattern)" % (len(jobs), COUNTS), uniq,
         ["hier (fr) vs '1 day ago'", "il y a 3 jours (fr) vs '3 day ago'"], exhaustive=True)


if __name__ == "__main__":
    main()
